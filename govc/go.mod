module govc

go 1.25.0

require golang.org/x/tools v0.48.0

require (
	golang.org/x/mod v0.38.0 // indirect
	golang.org/x/sync v0.22.0 // indirect
)
