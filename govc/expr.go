package main

import (
	"go/ast"
	"go/constant"
	"go/token"
	"go/types"
	"math/big"
	"sort"
	"strings"
)

type target struct {
	label  string
	isLoop bool
	breaks []*State
	conts  []*State
}

type retState struct {
	s    *State
	vals []Val
	ord  int
	pos  token.Pos
}

// Exec executes one function activation.
type Exec struct {
	eng     *Engine
	fn      *FnCtx
	targets []*target
	rets    []*retState
	defers  []*deferred
	// opaqueAddrArgs: while evaluating the arguments of an intrinsic that a call-site rule names
	// (the intrinsic itself works on the argument expressions), `&x.f` arguments are opaque values
	opaqueAddrArgs bool
}

func (x *Exec) info() *types.Info { return x.fn.pkg.TypesInfo }

func (x *Exec) typeOf(e ast.Expr) types.Type { return x.info().TypeOf(e) }

// oblige records a proof obligation: pc ∧ guards ⊢ goal.
func (x *Exec) oblige(s *State, kind string, pos token.Pos, goal, desc string) {
	if x.eng.recording || goal == "true" {
		if goal == "true" && !x.eng.recording {
			x.eng.trivial++
		}
		return
	}
	top := x.eng.curTop
	key := top.name + "#" + kind
	n := x.eng.ordinal(key)
	if len(s.guard) > 0 {
		goal = mkImp(mkAnd(s.guard...), goal)
	}
	where := ""
	if x.fn != top {
		where = " (in " + x.fn.name + ")"
	}
	x.eng.obls = append(x.eng.obls, &Obligation{
		Name: key + ":" + itoa(n), Kind: kind, Fn: top.name, Pos: posStr(x.eng.fset, pos),
		Desc: desc + where, PC: s.pc, Goal: goal, Inputs: top.inputs,
	})
}

func (x *Exec) constVal(t types.Type, cv constant.Value) Val {
	switch cv.Kind() {
	case constant.Bool:
		if constant.BoolVal(cv) {
			return boolVal("true")
		}
		return boolVal("false")
	case constant.Int:
		n, _ := new(big.Int).SetString(cv.ExactString(), 10)
		if kindOfType(t) == KFloat {
			return Val{K: KFloat, T: t, S: x.eng.floatConst(cv.ExactString())}
		}
		if n.Cmp(big1) > 0 && n.BitLen() < 64 {
			x.eng.litConsts[n.String()] = true
		}
		return constInt(t, n)
	case constant.String:
		return Val{K: KStr, T: t, S: x.eng.strConst(constant.StringVal(cv))}
	case constant.Float:
		if isIntegerType(t) {
			if iv := constant.ToInt(cv); iv.Kind() == constant.Int {
				n, _ := new(big.Int).SetString(iv.ExactString(), 10)
				return constInt(t, n)
			}
		}
		return Val{K: KFloat, T: t, S: x.eng.floatConst(cv.ExactString())}
	}
	return Val{K: KFloat, T: t, S: x.eng.floatConst(cv.ExactString())}
}

// strConst interns a string literal as an SMT constant of sort Str with known length and bytes.
func (e *Engine) strConst(v string) string {
	if v == "" {
		return "gs.empty"
	}
	if c, ok := e.strLits[v]; ok {
		return c
	}
	name := "strlit!" + itoa(len(e.strLits)+1)
	e.strLits[v] = name
	e.strLitOrder = append(e.strLitOrder, v)
	return name
}

func (e *Engine) floatConst(v string) string {
	if c, ok := e.floatLits[v]; ok {
		return c
	}
	name := "fltlit!" + itoa(len(e.floatLits)+1)
	e.floatLits[v] = name
	return name
}

// eval evaluates an expression (single-state; calls that fork are merged).
func (x *Exec) eval(s *State, e ast.Expr) Val {
	if v, ok := s.memo[e]; ok {
		return v
	}
	if tv, ok := x.info().Types[e]; ok && tv.Value != nil {
		return x.constVal(tv.Type, tv.Value)
	}
	switch e := e.(type) {
	case *ast.ParenExpr:
		return x.eval(s, e.X)
	case *ast.Ident:
		return x.evalIdent(s, e)
	case *ast.BasicLit:
		x.eng.unsupported(e.Pos(), "literal without constant value")
	case *ast.FuncLit:
		return Val{K: KFunc, T: x.typeOf(e), Fn: &FuncVal{Lit: e, Owner: x.fn}}
	case *ast.CompositeLit:
		return x.evalComposite(s, e)
	case *ast.SelectorExpr:
		return x.evalSelector(s, e)
	case *ast.IndexExpr:
		return x.evalIndex(s, e)
	case *ast.SliceExpr:
		return x.evalSliceExpr(s, e)
	case *ast.StarExpr:
		p := x.eval(s, e.X)
		x.nilCheck(s, p.S, e.Pos(), "nil pointer dereference")
		return s.loadPtr(x.typeOf(e), p.S)
	case *ast.UnaryExpr:
		return x.evalUnary(s, e)
	case *ast.BinaryExpr:
		return x.evalBinary(s, e)
	case *ast.CallExpr:
		return x.evalCall(s, e)
	case *ast.TypeAssertExpr:
		v, ok := x.typeAssert(s, e, false)
		_ = ok
		return v
	case *ast.KeyValueExpr:
		x.eng.unsupported(e.Pos(), "key-value outside literal")
	}
	x.eng.unsupported(e.Pos(), "expression %T", e)
	return Val{}
}

func (x *Exec) nilCheck(s *State, p string, pos token.Pos, what string) {
	if _, lit := isNumLit(p); lit && p != "0" {
		return
	}
	g := mkNot(mkEq(p, "0"))
	x.oblige(s, "nil", pos, g, what)
	s.assume(g)
}

func (x *Exec) evalIdent(s *State, id *ast.Ident) Val {
	if id.Name == "_" {
		return Val{}
	}
	obj := x.info().Uses[id]
	if obj == nil {
		obj = x.info().Defs[id]
	}
	switch o := obj.(type) {
	case *types.Nil:
		t := x.typeOf(id)
		return zeroVal(t)
	case *types.Const:
		return x.constVal(o.Type(), o.Val())
	case *types.Var:
		return x.readVar(s, o, id.Pos())
	case *types.Func:
		return Val{K: KFunc, T: o.Type(), Fn: &FuncVal{Obj: o}}
	case *types.Builtin, *types.TypeName:
		x.eng.unsupported(id.Pos(), "identifier %s used as value", id.Name)
	}
	x.eng.unsupported(id.Pos(), "unresolved identifier %s", id.Name)
	return Val{}
}

func (x *Exec) readVar(s *State, o *types.Var, pos token.Pos) Val {
	if v, ok := s.env[o]; ok {
		if x.isBoxed(o) {
			return s.loadPtr(o.Type(), v.S)
		}
		if v.K == KArr && v.Ref != "" {
			au := under(o.Type()).(*types.Array)
			v.S = s.backing(au.Elem(), v.Ref)[0]
		}
		return v
	}
	if o.Parent() != nil && o.Pkg() != nil && o.Parent() == o.Pkg().Scope() {
		return x.readGlobal(s, o)
	}
	// a captured variable of an enclosing function that was not bound: arbitrary
	v := s.freshVal("cap."+o.Name(), o.Type())
	if x.isBoxed(o) {
		// its address is taken in the function under verification: it lives in a cell of its own
		p := s.alloc("cap." + o.Name())
		s.storePtr(o.Type(), p, v)
		s.env[o] = Val{K: KInt, T: types.NewPointer(o.Type()), S: p}
		return s.loadPtr(o.Type(), p)
	}
	s.env[o] = v
	return v
}

func (x *Exec) isBoxed(o types.Object) bool {
	for f := x.fn; f != nil; f = f.parent {
		if f.boxed[o] {
			return true
		}
	}
	return x.eng.boxedAll[o]
}

// globals are cells in the heap map (scalar terms, not arrays)
func (x *Exec) readGlobal(s *State, o *types.Var) Val {
	base := "G$" + sanitize(o.Pkg().Path()+"."+o.Name())
	ls := leavesOf(o.Type())
	// first read on this path: a variable initialised with a literal keeps that value
	// (assumption: package-level tables are not reassigned elsewhere)
	if len(ls) > 0 {
		if _, seen := s.heap[base+"$"+ls[0].path]; !seen && !s.ginit[o] {
			if init := x.eng.globalInit(o); init != nil {
				if s.ginit == nil {
					s.ginit = map[*types.Var]bool{}
				}
				s.ginit[o] = true
				p := x.eng.pkgs[o.Pkg().Path()]
				gx := &Exec{eng: x.eng, fn: &FnCtx{eng: x.eng, pkg: p, name: "init " + o.Name(), parent: nil, depth: maxInlineDepth}}
				saved := s.written
				v := gx.eval(s, init)
				v = gx.convertTo(s, v, o.Type(), init.Pos())
				x.writeGlobal(s, o, v)
				s.written = saved
				x.eng.note("package-level variables initialised with literals are assumed to keep their initial value (" + o.Pkg().Name() + "." + o.Name() + ")")
			}
		}
	}
	terms := make([]string, len(ls))
	for i, l := range ls {
		name := base + "$" + l.path
		if t, ok := s.heap[name]; ok {
			terms[i] = t
		} else {
			c := x.eng.declare(name+"@0", l.sort)
			s.heap[name] = c
			terms[i] = c
		}
	}
	v, _ := unflatten(o.Type(), terms)
	s.assumeTyped(v)
	if v.K == KIface && x.eng.globalNonNil(o) {
		s.assume(mkNot(mkEq(v.Tag, "0")))
	}
	if _, isPtr := under(o.Type()).(*types.Pointer); isPtr && v.K == KInt && x.eng.globalNonNil(o) && strings.HasSuffix(v.S, "@0") {
		// a package-level pointer initialised by a constructor call or &T{...} and never reassigned
		s.assume(mkNot(mkEq(v.S, "0")))
		x.eng.note("package-level pointer variables initialised by a call or &literal are non-nil (" + o.Pkg().Name() + "." + o.Name() + ")")
	}
	if v.K == KIface && x.eng.globalSentinel(o) && strings.HasSuffix(v.Tag, "@0") && strings.HasSuffix(v.Dat, "@0") {
		// sentinel errors made by their own errors.New call are distinct objects without a chain
		key := o.Pkg().Path() + "." + o.Name()
		if x.eng.sentinels == nil {
			x.eng.sentinels = map[string][2]string{}
		}
		for _, k := range sortedKeys2(x.eng.sentinels) {
			if k == key {
				continue
			}
			ot := x.eng.sentinels[k]
			s.assume(mkNot(mkAnd(mkEq(v.Tag, ot[0]), mkEq(v.Dat, ot[1]))))
		}
		x.eng.sentinels[key] = [2]string{v.Tag, v.Dat}
		if _, ok := x.eng.db.UFs["eis"]; ok {
			x.eng.usedUF["eis"] = true
			s.assume(sf("(forall ((a!s Int) (b!s Int)) (! (= (eis %s %s a!s b!s) (and (= a!s %s) (= b!s %s))) :pattern ((eis %s %s a!s b!s))))",
				v.Tag, v.Dat, v.Tag, v.Dat, v.Tag, v.Dat))
		}
		x.eng.note("sentinel error variables initialised by their own errors.New call are distinct objects with no Unwrap chain (" + o.Pkg().Name() + "." + o.Name() + ")")
	}
	return s.annotate(v)
}

func (x *Exec) writeGlobal(s *State, o *types.Var, v Val) {
	base := "G$" + sanitize(o.Pkg().Path()+"."+o.Name())
	ls := leavesOf(o.Type())
	terms := flatten(v)
	for i, l := range ls {
		name := base + "$" + l.path
		c := x.eng.fresh(name+"@", l.sort)
		s.pc = s.pc.push(mkEq(c, terms[i]))
		s.heap[name] = c
		if s.written != nil {
			s.written[name] = true
		}
	}
}

// globalInit returns the initialiser of a package-level variable when it is a literal table
// (composite literal of constants), nil otherwise.
func (e *Engine) globalInit(o *types.Var) ast.Expr {
	if r, ok := e.ginitCache[o]; ok {
		return r
	}
	var res ast.Expr
	if p, ok := e.pkgs[o.Pkg().Path()]; ok {
		for _, f := range p.Syntax {
			for _, d := range f.Decls {
				gd, ok := d.(*ast.GenDecl)
				if !ok || gd.Tok != token.VAR {
					continue
				}
				for _, sp := range gd.Specs {
					vs := sp.(*ast.ValueSpec)
					for i, n := range vs.Names {
						if p.TypesInfo.Defs[n] == o && i < len(vs.Values) && len(vs.Values) == len(vs.Names) {
							if literalOnly(p.TypesInfo, vs.Values[i]) {
								res = vs.Values[i]
							}
						}
					}
				}
			}
		}
	}
	e.ginitCache[o] = res
	return res
}

func literalOnly(info *types.Info, e ast.Expr) bool {
	ok := true
	ast.Inspect(e, func(n ast.Node) bool {
		switch v := n.(type) {
		case *ast.CallExpr:
			if tv, has := info.Types[v.Fun]; !has || !tv.IsType() {
				ok = false
			}
		case *ast.FuncLit:
			ok = false
		case *ast.Ident:
			if obj, isVar := info.Uses[v].(*types.Var); isVar && !obj.IsField() {
				ok = false
			}
		}
		return ok
	})
	if _, isLit := unparen(e).(*ast.CompositeLit); !isLit {
		if u, isU := unparen(e).(*ast.UnaryExpr); !isU || u.Op != token.AND {
			return false
		}
	}
	return ok
}

// globalNonNil: package-level error sentinels (initialised by a call) are non-nil.
func (e *Engine) globalNonNil(o *types.Var) bool {
	if r, ok := e.gnn[o]; ok {
		return r
	}
	res := false
	if p, ok := e.pkgs[o.Pkg().Path()]; ok {
		for _, f := range p.Syntax {
			for _, d := range f.Decls {
				gd, ok := d.(*ast.GenDecl)
				if !ok || gd.Tok != token.VAR {
					continue
				}
				for _, sp := range gd.Specs {
					vs := sp.(*ast.ValueSpec)
					for i, n := range vs.Names {
						if p.TypesInfo.Defs[n] == o && i < len(vs.Values) {
							switch iv := vs.Values[i].(type) {
							case *ast.CallExpr:
								res = true
							case *ast.UnaryExpr:
								if iv.Op == token.AND {
									res = true
								}
							}
						}
					}
				}
			}
		}
	} else {
		// exported sentinel of a dependency (io.EOF, context.Canceled, ...)
		res = strings.HasPrefix(o.Name(), "Err") || o.Name() == "EOF" || o.Name() == "Canceled" || o.Name() == "DeadlineExceeded"
	}
	e.gnn[o] = res
	return res
}

// globalSentinel: a package-level error variable initialised by its own errors.New/Errorf call (or a
// well-known sentinel of the standard library): a distinct object that wraps nothing.
func (e *Engine) globalSentinel(o *types.Var) bool {
	if r, ok := e.gsent[o]; ok {
		return r
	}
	if e.gsent == nil {
		e.gsent = map[*types.Var]bool{}
	}
	res := false
	if p, ok := e.pkgs[o.Pkg().Path()]; ok {
		for _, f := range p.Syntax {
			for _, d := range f.Decls {
				gd, ok := d.(*ast.GenDecl)
				if !ok || gd.Tok != token.VAR {
					continue
				}
				for _, sp := range gd.Specs {
					vs := sp.(*ast.ValueSpec)
					for i, n := range vs.Names {
						if p.TypesInfo.Defs[n] != o || i >= len(vs.Values) {
							continue
						}
						if call, ok := vs.Values[i].(*ast.CallExpr); ok {
							if fn, ok := typeutilCallee(p.TypesInfo, call); ok && fn.Pkg() != nil {
								pk := fn.Pkg().Path()
								if (pk == "errors" || pk == "github.com/go-faster/errors") && fn.Name() == "New" {
									res = true
								}
							}
						}
					}
				}
			}
		}
	} else {
		switch o.Pkg().Path() + "." + o.Name() {
		case "context.Canceled", "context.DeadlineExceeded", "io.EOF", "io.ErrUnexpectedEOF":
			res = true
		}
	}
	e.gsent[o] = res
	return res
}

func typeutilCallee(info *types.Info, call *ast.CallExpr) (*types.Func, bool) {
	var id *ast.Ident
	switch f := call.Fun.(type) {
	case *ast.Ident:
		id = f
	case *ast.SelectorExpr:
		id = f.Sel
	}
	if id == nil {
		return nil, false
	}
	fn, ok := info.Uses[id].(*types.Func)
	return fn, ok
}

func sortedKeys2(m map[string][2]string) []string {
	var ks []string
	for k := range m {
		ks = append(ks, k)
	}
	sort.Strings(ks)
	return ks
}

func (x *Exec) evalComposite(s *State, e *ast.CompositeLit) Val {
	t := x.typeOf(e)
	switch u := under(t).(type) {
	case *types.Struct:
		v := zeroVal(t)
		for i, el := range e.Elts {
			if kv, ok := el.(*ast.KeyValueExpr); ok {
				name := kv.Key.(*ast.Ident).Name
				idx, f := fieldIndex(t, name)
				v.Fs[idx] = x.convertTo(s, x.eval(s, kv.Value), f.Type(), kv.Value.Pos())
			} else {
				v.Fs[i] = x.convertTo(s, x.eval(s, el), u.Field(i).Type(), el.Pos())
			}
		}
		return v
	case *types.Slice:
		n := int64(0)
		type item struct {
			idx int64
			v   Val
		}
		var items []item
		cur := int64(0)
		for _, el := range e.Elts {
			var ve ast.Expr = el
			if kv, ok := el.(*ast.KeyValueExpr); ok {
				tv := x.info().Types[kv.Key]
				if tv.Value == nil {
					x.eng.unsupported(kv.Pos(), "non-constant slice literal key")
				}
				k, _ := constant.Int64Val(tv.Value)
				cur = k
				ve = kv.Value
			}
			items = append(items, item{cur, x.convertTo(s, x.evalElem(s, ve, u.Elem()), u.Elem(), ve.Pos())})
			cur++
			if cur > n {
				n = cur
			}
		}
		ref := s.alloc("lit")
		// fresh backing store is zeroed
		arrs := make([]string, 0)
		for _, l := range leavesOf(u.Elem()) {
			arrs = append(arrs, zeroArray(arrSort(l.sort)))
		}
		for _, it := range items {
			terms := flatten(it.v)
			for i := range arrs {
				arrs[i] = mkSto(arrs[i], numI(it.idx), terms[i])
			}
		}
		s.setBacking(u.Elem(), ref, arrs)
		return Val{K: KSlice, T: t, Ref: ref, Off: "0", Len: numI(n), Cap: numI(n)}
	case *types.Array:
		arr := zeroArray(arrSort(scalarSort(u.Elem())))
		cur := int64(0)
		for _, el := range e.Elts {
			var ve ast.Expr = el
			if kv, ok := el.(*ast.KeyValueExpr); ok {
				tv := x.info().Types[kv.Key]
				k, _ := constant.Int64Val(tv.Value)
				cur = k
				ve = kv.Value
			}
			arr = mkSto(arr, numI(cur), x.convertTo(s, x.eval(s, ve), u.Elem(), ve.Pos()).S)
			cur++
		}
		return Val{K: KArr, T: t, S: s.define("arr", arrSort(scalarSort(u.Elem())), arr)}
	case *types.Map:
		m := x.makeMap(s, t)
		for _, el := range e.Elts {
			kv := el.(*ast.KeyValueExpr)
			k := x.convertTo(s, x.eval(s, kv.Key), u.Key(), kv.Pos())
			v := x.convertTo(s, x.evalElem(s, kv.Value, u.Elem()), u.Elem(), kv.Pos())
			x.mapStore(s, t, m.S, k, v)
		}
		return m
	}
	x.eng.unsupported(e.Pos(), "composite literal of %s", t)
	return Val{}
}

// evalElem evaluates a literal element whose type may be elided ({...} inside []T{...}).
func (x *Exec) evalElem(s *State, e ast.Expr, et types.Type) Val {
	if cl, ok := e.(*ast.CompositeLit); ok && cl.Type == nil {
		if p, isPtr := under(et).(*types.Pointer); isPtr {
			v := x.evalComposite(s, cl)
			r := s.alloc("new")
			s.storePtr(p.Elem(), r, v)
			return Val{K: KInt, T: et, S: r}
		}
	}
	return x.eval(s, e)
}

// fieldPath resolves a (possibly promoted) field selection into leaf-path steps.
type fstep struct {
	name  string
	typ   types.Type // field type
	deref bool       // the value *before* this step is a pointer that must be dereferenced
	owner types.Type // struct type owning the field (after deref)
}

func (x *Exec) fieldSteps(recvT types.Type, sel *types.Selection) []fstep {
	return x.fieldStepsIdx(recvT, sel.Index())
}

func (x *Exec) fieldStepsIdx(recvT types.Type, index []int) []fstep {
	var steps []fstep
	t := recvT
	for _, idx := range index {
		deref := false
		if p, ok := under(t).(*types.Pointer); ok {
			deref = true
			t = p.Elem()
		}
		st := under(t).(*types.Struct)
		f := st.Field(idx)
		steps = append(steps, fstep{name: f.Name(), typ: f.Type(), deref: deref, owner: t})
		t = f.Type()
	}
	return steps
}

func (x *Exec) evalSelector(s *State, e *ast.SelectorExpr) Val {
	// package-qualified identifier
	if id, ok := e.X.(*ast.Ident); ok {
		if _, isPkg := x.info().Uses[id].(*types.PkgName); isPkg {
			return x.evalIdent(s, e.Sel)
		}
	}
	sel := x.info().Selections[e]
	if sel == nil {
		x.eng.unsupported(e.Pos(), "selector without selection")
	}
	switch sel.Kind() {
	case types.FieldVal:
		base := x.eval(s, e.X)
		return x.selectField(s, base, x.fieldSteps(x.typeOf(e.X), sel), e.Pos())
	case types.MethodVal:
		recv := x.eval(s, e.X)
		return Val{K: KFunc, T: x.typeOf(e), Fn: &FuncVal{Obj: sel.Obj().(*types.Func), Recv: &recv}}
	case types.MethodExpr:
		return Val{K: KFunc, T: x.typeOf(e), Fn: &FuncVal{Obj: sel.Obj().(*types.Func)}}
	}
	return Val{}
}

func (x *Exec) selectField(s *State, base Val, steps []fstep, pos token.Pos) Val {
	cur := base
	for _, st := range steps {
		if st.deref {
			x.nilCheck(s, cur.S, pos, "nil pointer dereference (field "+st.name+")")
			cur = s.loadField(st.owner, cur.S, "."+st.name, st.typ)
			if _, isPtr := under(st.typ).(*types.Pointer); isPtr && len(x.eng.db.NonNil) > 0 {
				if n, ok := types.Unalias(st.owner).(*types.Named); ok && n.Obj().Pkg() != nil &&
					x.eng.db.NonNil[n.Obj().Pkg().Path()+"."+n.Obj().Name()+"."+st.name] {
					s.assume(mkNot(mkEq(cur.S, "0")))
				}
			}
			continue
		}
		idx, _ := fieldIndex(st.owner, st.name)
		if cur.K != KStruct || idx < 0 || idx >= len(cur.Fs) {
			x.eng.unsupported(pos, "field %s of non-struct value", st.name)
		}
		cur = cur.Fs[idx]
	}
	return cur
}

func (x *Exec) evalIndex(s *State, e *ast.IndexExpr) Val {
	// generic function instantiation
	if tv, ok := x.info().Types[e.X]; ok && tv.IsType() {
		x.eng.unsupported(e.Pos(), "type index expression")
	}
	if _, isSig := under(x.typeOf(e.X)).(*types.Signature); isSig {
		return x.eval(s, e.X)
	}
	bt := x.typeOf(e.X)
	switch u := under(bt).(type) {
	case *types.Slice:
		b := x.eval(s, e.X)
		i := x.eval(s, e.Index)
		x.boundsCheck(s, i.S, b.Len, e.Pos(), "index")
		return s.loadElem(u.Elem(), b.Ref, mkAdd(b.Off, i.S))
	case *types.Array:
		b := x.eval(s, e.X)
		i := x.eval(s, e.Index)
		x.boundsCheck(s, i.S, numI(u.Len()), e.Pos(), "array index")
		return x.arrElem(s, u, b.S, i.S)
	case *types.Pointer:
		if au, ok := under(u.Elem()).(*types.Array); ok {
			p := x.eval(s, e.X)
			x.nilCheck(s, p.S, e.Pos(), "nil array pointer")
			arr := s.loadPtr(u.Elem(), p.S)
			i := x.eval(s, e.Index)
			x.boundsCheck(s, i.S, numI(au.Len()), e.Pos(), "array index")
			return x.arrElem(s, au, arr.S, i.S)
		}
	case *types.Basic: // string
		b := x.eval(s, e.X)
		i := x.eval(s, e.Index)
		x.boundsCheck(s, i.S, x.strLen(b), e.Pos(), "string index")
		x.eng.usedUF["gs.at"] = true
		r := Val{K: KInt, T: types.Typ[types.Uint8], S: app("gs.at", b.S, i.S), Lo: big0, Hi: big.NewInt(255)}
		return r
	case *types.Map:
		m := x.eval(s, e.X)
		k := x.convertTo(s, x.eval(s, e.Index), u.Key(), e.Pos())
		v, _ := x.mapLoad(s, bt, m.S, k)
		return v
	}
	x.eng.unsupported(e.Pos(), "index into %s", bt)
	return Val{}
}

func (x *Exec) arrElem(s *State, u *types.Array, arr, i string) Val {
	t := u.Elem()
	v := Val{K: kindOfType(t), T: t, S: mkSel(arr, i)}
	if v.K == KInt {
		s.assume(rangeFact(t, v.S))
		v = s.annotate(v)
	}
	return v
}

func (x *Exec) strLen(v Val) string {
	if v.S == "gs.empty" {
		return "0"
	}
	x.eng.usedUF["gs.len"] = true
	return app("gs.len", v.S)
}

func (x *Exec) boundsCheck(s *State, i, n string, pos token.Pos, what string) {
	g := mkAnd(mkCmp("<=", "0", i), mkCmp("<", i, n))
	x.oblige(s, "idx", pos, g, what+" in range")
	s.assume(g)
}

func (x *Exec) evalSliceExpr(s *State, e *ast.SliceExpr) Val {
	bt := x.typeOf(e.X)
	var lo, hi, mx *Val
	if e.Low != nil {
		v := x.eval(s, e.Low)
		lo = &v
	}
	if e.High != nil {
		v := x.eval(s, e.High)
		hi = &v
	}
	if e.Max != nil {
		v := x.eval(s, e.Max)
		mx = &v
	}
	switch u := under(bt).(type) {
	case *types.Slice:
		b := x.eval(s, e.X)
		return x.sliceOf(s, b, lo, hi, mx, e.Pos(), x.typeOf(e))
	case *types.Basic: // string
		b := x.eval(s, e.X)
		l, h := "0", x.strLen(b)
		if lo != nil {
			l = lo.S
		}
		if hi != nil {
			h = hi.S
		}
		g := mkAnd(mkCmp("<=", "0", l), mkCmp("<=", l, h), mkCmp("<=", h, x.strLen(b)))
		x.oblige(s, "slice", e.Pos(), g, "string slice bounds")
		s.assume(g)
		if l == "0" && hi == nil {
			return b
		}
		x.eng.usedUF["gs.sub"] = true
		r := Val{K: KStr, T: x.typeOf(e), S: s.define("sub", sStr, app("gs.sub", b.S, l, h))}
		x.eng.usedUF["gs.len"] = true
		s.assume(mkEq(app("gs.len", r.S), mkSub(h, l)))
		return r
	case *types.Array:
		// slicing an addressable array: materialise it as a fresh backing store (copy semantics are
		// only exact when the array is not written through the slice afterwards; arrays boxed by & are handled by pointer case)
		b := x.eval(s, e.X)
		return x.sliceArrayValue(s, e, u, b, lo, hi, mx)
	case *types.Pointer:
		if au, ok := under(u.Elem()).(*types.Array); ok {
			p := x.eval(s, e.X)
			x.nilCheck(s, p.S, e.Pos(), "nil array pointer")
			arr := s.loadPtr(u.Elem(), p.S)
			return x.sliceArrayValue(s, e, au, arr, lo, hi, mx)
		}
	}
	x.eng.unsupported(e.Pos(), "slice of %s", bt)
	return Val{}
}

// sliceArrayValue: s := arr[lo:hi] where arr is an array *value* (e.g. h[:] of a fresh sha sum).
// The slice gets a fresh backing store holding a copy of the array; a later write through the
// slice is not reflected in the array variable: recorded as an assumption note when it happens
// for a named variable (the common idiom h := sum(); h[:] only reads).
func (x *Exec) sliceArrayValue(s *State, e *ast.SliceExpr, u *types.Array, arr Val, lo, hi, mx *Val) Val {
	n := numI(u.Len())
	var ref string
	if id, ok := unparen(e.X).(*ast.Ident); ok {
		if o, ok := x.info().Uses[id].(*types.Var); ok && x.isSlicedArr(o) {
			if v, ok := s.env[o]; ok && v.Ref != "" {
				ref = v.Ref // the variable's storage itself
			}
		}
	}
	if ref == "" {
		ref = s.alloc("arrs")
		s.setBacking(u.Elem(), ref, []string{arr.S})
		s.roRefs[ref] = exprString(e.X)
	}
	b := Val{K: KSlice, T: types.NewSlice(u.Elem()), Ref: ref, Off: "0", Len: n, Cap: n}
	return x.sliceOf(s, b, lo, hi, mx, e.Pos(), x.typeOf(e))
}

func unparen(e ast.Expr) ast.Expr {
	for {
		p, ok := e.(*ast.ParenExpr)
		if !ok {
			return e
		}
		e = p.X
	}
}

func (x *Exec) isSlicedArr(o types.Object) bool {
	for f := x.fn; f != nil; f = f.parent {
		if f.slicedArr[o] {
			return true
		}
	}
	return false
}

func rootIdent(e ast.Expr) *ast.Ident {
	for {
		switch v := e.(type) {
		case *ast.Ident:
			return v
		case *ast.ParenExpr:
			e = v.X
		case *ast.SelectorExpr:
			e = v.X
		case *ast.IndexExpr:
			e = v.X
		case *ast.StarExpr:
			e = v.X
		default:
			return nil
		}
	}
}

func (x *Exec) sliceOf(s *State, b Val, lo, hi, mx *Val, pos token.Pos, rt types.Type) Val {
	l, h, m := "0", b.Len, b.Cap
	if lo != nil {
		l = lo.S
	}
	if hi != nil {
		h = hi.S
	}
	if mx != nil {
		m = mx.S
	}
	g := mkAnd(mkCmp("<=", "0", l), mkCmp("<=", l, h), mkCmp("<=", h, m), mkCmp("<=", m, b.Cap))
	x.oblige(s, "slice", pos, g, "slice bounds in range")
	s.assume(g)
	r := Val{K: KSlice, T: rt, Ref: b.Ref, Off: s.define("off", sInt, mkAdd(b.Off, l)), Len: s.define("len", sInt, mkSub(h, l)), Cap: s.define("cap", sInt, mkSub(m, l))}
	return r
}

func (x *Exec) evalUnary(s *State, e *ast.UnaryExpr) Val {
	switch e.Op {
	case token.AND:
		return x.addressOf(s, e)
	case token.NOT:
		v := x.eval(s, e.X)
		return boolVal(mkNot(v.S))
	case token.SUB:
		v := x.eval(s, e.X)
		if v.K == KFloat {
			x.eng.usedUF["flt.neg"] = true
			return Val{K: KFloat, T: v.T, S: app("flt.neg", v.S)}
		}
		var lo, hi *big.Int
		if v.Lo != nil && v.Hi != nil {
			lo, hi = new(big.Int).Neg(v.Hi), new(big.Int).Neg(v.Lo)
		}
		return x.finish(s, mkNeg(v.S), lo, hi, x.typeOf(e), e.Pos(), "negation")
	case token.ADD:
		return x.eval(s, e.X)
	case token.XOR:
		v := x.eval(s, e.X)
		t := x.typeOf(e)
		// ^x == -x-1 (signed) ; max - x (unsigned)
		if isUnsigned(t) {
			_, th, _ := intRange(t)
			return Val{K: KInt, T: t, S: mkSub(num(th), v.S), Lo: big0, Hi: th}
		}
		var lo, hi *big.Int
		if v.Lo != nil && v.Hi != nil {
			lo, hi = new(big.Int).Sub(new(big.Int).Neg(v.Hi), big1), new(big.Int).Sub(new(big.Int).Neg(v.Lo), big1)
		}
		return Val{K: KInt, T: t, S: mkSub(mkNeg(v.S), "1"), Lo: lo, Hi: hi}
	case token.ARROW:
		return x.chanRecv(s, e, false)
	}
	x.eng.unsupported(e.Pos(), "unary operator %s", e.Op)
	return Val{}
}

func (x *Exec) addressOf(s *State, e *ast.UnaryExpr) Val {
	t := x.typeOf(e)
	switch inner := e.X.(type) {
	case *ast.CompositeLit:
		v := x.evalComposite(s, inner)
		r := s.alloc("new")
		s.storePtr(x.typeOf(inner), r, v)
		return Val{K: KInt, T: t, S: r}
	case *ast.Ident:
		if o, ok := x.info().Uses[inner].(*types.Var); ok {
			if _, bound := s.env[o]; !bound && x.isBoxed(o) {
				x.readVar(s, o, inner.Pos()) // an unbound captured variable: give it its cell
			}
			if v, ok := s.env[o]; ok && x.isBoxed(o) {
				return Val{K: KInt, T: t, S: v.S}
			}
		}
	case *ast.ParenExpr:
		return x.addressOf(s, &ast.UnaryExpr{Op: token.AND, X: inner.X, OpPos: e.OpPos})
	}
	// interior pointers are outside the subset, except as direct arguments of known functions (handled by the caller)
	x.eng.unsupported(e.Pos(), "address-of %s (interior pointer)", exprString(e.X))
	return Val{}
}

func (x *Exec) evalBinary(s *State, e *ast.BinaryExpr) Val {
	switch e.Op {
	case token.LAND, token.LOR:
		l := x.eval(s, e.X)
		g := l.S
		if e.Op == token.LOR {
			g = mkNot(l.S)
		}
		s.guard = append(s.guard, g)
		r := x.eval(s, e.Y)
		s.guard = s.guard[:len(s.guard)-1]
		if e.Op == token.LAND {
			return boolVal(mkAnd(l.S, r.S))
		}
		return boolVal(mkOr(l.S, r.S))
	}
	l := x.eval(s, e.X)
	r := x.eval(s, e.Y)
	switch e.Op {
	case token.EQL, token.NEQ:
		eq := x.equal(s, l, r, x.typeOf(e.X), x.typeOf(e.Y), e.Pos())
		if e.Op == token.NEQ {
			return boolVal(mkNot(eq))
		}
		return boolVal(eq)
	case token.LSS, token.LEQ, token.GTR, token.GEQ:
		if l.K == KStr || l.K == KFloat {
			x.eng.usedUF["cmp.lt"] = true
			// uninterpreted ordering
			name := "gs.lt"
			if l.K == KFloat {
				name = "flt.lt"
			}
			x.eng.usedUF[name] = true
			a, b := l.S, r.S
			switch e.Op {
			case token.LSS:
				return boolVal(app(name, a, b))
			case token.GTR:
				return boolVal(app(name, b, a))
			case token.LEQ:
				return boolVal(mkNot(app(name, b, a)))
			default:
				return boolVal(mkNot(app(name, a, b)))
			}
		}
		return boolVal(mkCmp(e.Op.String(), l.S, r.S))
	}
	t := x.typeOf(e)
	if l.K == KStr && e.Op == token.ADD {
		return x.strConcat(s, l, r, t)
	}
	if l.K == KFloat || r.K == KFloat {
		name := "flt." + map[token.Token]string{token.ADD: "add", token.SUB: "sub", token.MUL: "mul", token.QUO: "div"}[e.Op]
		x.eng.usedUF[name] = true
		return Val{K: KFloat, T: t, S: app(name, l.S, r.S)}
	}
	// shifts: result type is the left operand's type
	return x.arith(s, e.Op, l, r, t, e.Pos())
}

func (x *Exec) strConcat(s *State, l, r Val, t types.Type) Val {
	if l.S == "gs.empty" {
		return r
	}
	if r.S == "gs.empty" {
		return l
	}
	x.eng.usedUF["gs.cat"] = true
	x.eng.usedUF["gs.len"] = true
	v := Val{K: KStr, T: t, S: s.define("cat", sStr, app("gs.cat", l.S, r.S))}
	s.assume(mkEq(app("gs.len", v.S), mkAdd(x.strLen(l), x.strLen(r))))
	return v
}

// equal builds the SMT equality of two Go values (==).
func (x *Exec) equal(s *State, l, r Val, lt, rt types.Type, pos token.Pos) string {
	if isUntypedNil(r) && l.T != nil && !isUntypedNil(l) {
		r = zeroVal(l.T)
	}
	if isUntypedNil(l) && r.T != nil && !isUntypedNil(r) {
		l = zeroVal(r.T)
	}
	// comparison of an interface with a concrete value: box the concrete side
	if l.K == KIface && r.K != KIface && r.K != KNone {
		r = x.convertTo(s, r, l.T, pos)
	}
	if r.K == KIface && l.K != KIface && l.K != KNone {
		l = x.convertTo(s, l, r.T, pos)
	}
	if l.K == KArr {
		if n, ok := arrLenOf(l.T); ok {
			return arrEq(l.S, r.S, n)
		}
		if n, ok := arrLenOf(r.T); ok {
			return arrEq(l.S, r.S, n)
		}
	}
	switch l.K {
	case KInt, KBool, KStr, KFloat, KArr:
		return mkEq(l.S, r.S)
	case KSlice:
		// only comparison with nil is legal
		if r.Ref == "0" {
			return mkEq(l.Ref, "0")
		}
		return mkEq(r.Ref, "0")
	case KIface:
		return mkAnd(mkEq(l.Tag, r.Tag), mkEq(l.Dat, r.Dat))
	case KStruct:
		var cs []string
		for i := range l.Fs {
			cs = append(cs, x.equal(s, l.Fs[i], r.Fs[i], l.Fs[i].T, r.Fs[i].T, pos))
		}
		return mkAnd(cs...)
	case KFunc:
		// func == nil
		if l.Fn != nil || r.Fn != nil {
			if (l.Fn != nil) != (r.Fn != nil) {
				return "false"
			}
		}
		ls, rs := l.S, r.S
		if ls == "" {
			ls = "0"
		}
		if rs == "" {
			rs = "0"
		}
		if l.Fn != nil && r.Fn == nil {
			return "false"
		}
		return mkEq(ls, rs)
	}
	x.eng.unsupported(pos, "comparison of %v", l.K)
	return ""
}

func exprString(e ast.Expr) string { return types.ExprString(e) }

func isUntypedNil(v Val) bool {
	b, ok := v.T.(*types.Basic)
	return ok && b.Kind() == types.UntypedNil
}

// convertTo performs the implicit/explicit conversion of v to type t.
func (x *Exec) convertTo(s *State, v Val, t types.Type, pos token.Pos) Val {
	if t == nil || v.K == KNone {
		return v
	}
	tk := kindOfType(t)
	if b, ok := v.T.(*types.Basic); ok && b.Kind() == types.UntypedNil {
		return zeroVal(t)
	}
	switch {
	case tk == KIface && v.K != KIface:
		return x.box(s, v, t, pos)
	case tk == KIface && v.K == KIface:
		v.T = t
		return v
	case tk == KInt && v.K == KInt:
		if isIntegerType(t) && (v.T == nil || isIntegerType(v.T)) {
			return x.convertInt(s, v, t, pos)
		}
		v.T = t
		return v
	case tk == KFloat && v.K == KInt:
		x.eng.usedUF["flt.ofint"] = true
		return Val{K: KFloat, T: t, S: app("flt.ofint", v.S)}
	case tk == KInt && v.K == KFloat:
		x.eng.usedUF["flt.toint"] = true
		r := Val{K: KInt, T: t, S: s.define("f2i", sInt, app("flt.toint", v.S))}
		s.assume(rangeFact(t, r.S))
		return s.annotate(r)
	case tk == KStr && v.K == KSlice:
		return x.bytesToString(s, v, t)
	case tk == KSlice && v.K == KStr:
		return x.stringToBytes(s, v, t)
	case tk == KStr && v.K == KInt:
		x.eng.usedUF["gs.ofrune"] = true
		x.eng.usedUF["gs.len"] = true
		r := Val{K: KStr, T: t, S: app("gs.ofrune", v.S)}
		return r
	case tk == KFunc && v.K == KInt: // nil func
		return Val{K: KFunc, T: t, S: v.S}
	}
	if v.K == KStruct || v.K == KSlice || v.K == KArr || v.K == KStr || v.K == KBool || v.K == KFloat || v.K == KFunc {
		v.T = t
		if v.K == KStruct {
			// field types stay
		}
	}
	return v
}

func (x *Exec) bytesToString(s *State, v Val, t types.Type) Val {
	x.eng.usedUF["gs.ofbytes"] = true
	x.eng.usedUF["gs.len"] = true
	et := under(v.T).(*types.Slice).Elem()
	arr := s.backing(et, v.Ref)[0]
	r := Val{K: KStr, T: t, S: s.define("str", sStr, app("gs.ofbytes", arr, v.Off, v.Len))}
	s.assume(mkEq(app("gs.len", r.S), v.Len))
	return r
}

func (x *Exec) stringToBytes(s *State, v Val, t types.Type) Val {
	x.eng.usedUF["gs.at"] = true
	et := under(t).(*types.Slice).Elem()
	ref := s.alloc("s2b")
	n := x.strLen(v)
	arr := x.eng.fresh("s2b.arr", arrSort(scalarSort(et)))
	k := "k!q"
	s.assume(sf("(forall ((%s Int)) (! (=> (and (<= 0 %s) (< %s %s)) (= (select %s %s) (gs.at %s %s))) :pattern ((select %s %s))))", k, k, k, n, arr, k, v.S, k, arr, k))
	s.setBacking(et, ref, []string{arr})
	x.eng.usedUF["gs.ofbytes"] = true
	s.assume(mkEq(app("gs.ofbytes", arr, "0", n), v.S))
	return Val{K: KSlice, T: t, Ref: ref, Off: "0", Len: n, Cap: n}
}

// box converts a concrete value to an interface value (tag, data).
func (x *Exec) box(s *State, v Val, it types.Type, pos token.Pos) Val {
	if v.T == nil {
		x.eng.unsupported(pos, "boxing untyped value")
	}
	// untyped nil
	if b, ok := under(v.T).(*types.Basic); ok && b.Kind() == types.UntypedNil {
		return Val{K: KIface, T: it, Tag: "0", Dat: "0"}
	}
	tag := numI(int64(x.eng.typeTag(v.T)))
	switch under(v.T).(type) {
	case *types.Pointer, *types.Map, *types.Chan:
		// a nil pointer converted to an interface is modelled as the nil interface (typed-nil interface
		// values are outside the model; recorded as an assumption)
		if _, lit := isNumLit(v.S); lit {
			if v.S == "0" {
				return Val{K: KIface, T: it, Tag: "0", Dat: "0"}
			}
			return Val{K: KIface, T: it, Tag: tag, Dat: v.S}
		}
		x.eng.note("interface values never hold typed nil pointers (a nil pointer converted to an interface is the nil interface)")
		return Val{K: KIface, T: it, Tag: s.define("tag", sInt, mkIte(mkEq(v.S, "0"), "0", tag)), Dat: v.S}
	}
	if v.K == KFunc {
		return Val{K: KIface, T: it, Tag: tag, Dat: s.eng.fresh("fnbox", sInt)}
	}
	// value types: data is a reference to an immutable box holding the value
	r := s.alloc("box")
	s.storePtr(v.T, r, v)
	return Val{K: KIface, T: it, Tag: tag, Dat: r}
}
