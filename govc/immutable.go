package main

import (
	"go/ast"
	"go/types"
	"strings"
)

// immutableArray: the heap array holds a field declared immutable (written only by constructors).
func (e *Engine) immutableArray(name string) bool {
	if e.db == nil || len(e.db.Immutable) == 0 || !strings.HasPrefix(name, "H$") {
		return false
	}
	for p := range e.db.Immutable {
		if name == p || strings.HasPrefix(name, p+"^") || strings.HasPrefix(name, p+".") {
			return true
		}
	}
	return false
}

// checkImmutable verifies syntactically, over all loaded packages, that fields declared immutable
// are assigned only inside constructor functions (name starting with New/new).  Returns the
// offending assignments.
func (e *Engine) checkImmutable() []string {
	if len(e.db.Immutable) == 0 {
		return nil
	}
	want := map[string]bool{}
	for _, v := range e.db.Immutable {
		want[v] = true
	}
	var bad []string
	for _, p := range e.pkgs {
		for _, f := range p.Syntax {
			for _, d := range f.Decls {
				fd, ok := d.(*ast.FuncDecl)
				if !ok || fd.Body == nil {
					continue
				}
				ctor := strings.HasPrefix(fd.Name.Name, "New") || strings.HasPrefix(fd.Name.Name, "new")
				check := func(lhs ast.Expr) {
					sel, ok := unparen(lhs).(*ast.SelectorExpr)
					if !ok {
						return
					}
					s := p.TypesInfo.Selections[sel]
					if s == nil || s.Kind() != types.FieldVal {
						return
					}
					rt := s.Recv()
					if pt, ok := under(rt).(*types.Pointer); ok {
						rt = pt.Elem()
					}
					n, ok := types.Unalias(rt).(*types.Named)
					if !ok || n.Obj().Pkg() == nil {
						return
					}
					key := n.Obj().Pkg().Path() + "." + n.Obj().Name() + "." + sel.Sel.Name
					if want[key] && !ctor {
						bad = append(bad, key+" assigned in "+fd.Name.Name+" at "+posStr(e.fset, lhs.Pos()))
					}
				}
				ast.Inspect(fd.Body, func(n ast.Node) bool {
					switch st := n.(type) {
					case *ast.AssignStmt:
						for _, l := range st.Lhs {
							check(l)
						}
					case *ast.IncDecStmt:
						check(st.X)
					case *ast.UnaryExpr:
						if st.Op.String() == "&" {
							check(st.X) // address taken: could be written through the pointer
						}
					}
					return true
				})
			}
		}
	}
	return bad
}
