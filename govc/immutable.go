package main

import (
	"go/ast"
	"go/types"
	"strings"
)

// immutableArray: the heap array holds a field declared immutable (written only by constructors).
func (e *Engine) immutableArray(name string) bool {
	if e.db == nil || len(e.db.Immutable) == 0 || !strings.HasPrefix(name, "H$") {
		return false
	}
	for p := range e.db.Immutable {
		if name == p || strings.HasPrefix(name, p+"^") || strings.HasPrefix(name, p+".") {
			return true
		}
	}
	return false
}

// checkImmutable verifies syntactically, over all loaded packages, that fields declared immutable
// are assigned only inside constructor functions (name starting with New/new).  Returns the
// offending assignments.
func (e *Engine) checkImmutable() []string {
	if len(e.db.Immutable) == 0 {
		return nil
	}
	want := map[string]bool{}
	for _, v := range e.db.Immutable {
		want[v] = true
	}
	var bad []string
	for _, p := range e.pkgs {
		for _, f := range p.Syntax {
			for _, d := range f.Decls {
				fd, ok := d.(*ast.FuncDecl)
				if !ok || fd.Body == nil {
					continue
				}
				ctor := strings.HasPrefix(fd.Name.Name, "New") || strings.HasPrefix(fd.Name.Name, "new")
				check := func(lhs ast.Expr) {
					sel, ok := unparen(lhs).(*ast.SelectorExpr)
					if !ok {
						return
					}
					s := p.TypesInfo.Selections[sel]
					if s == nil || s.Kind() != types.FieldVal {
						return
					}
					rt := s.Recv()
					if pt, ok := under(rt).(*types.Pointer); ok {
						rt = pt.Elem()
					}
					n, ok := types.Unalias(rt).(*types.Named)
					if !ok || n.Obj().Pkg() == nil {
						return
					}
					key := n.Obj().Pkg().Path() + "." + n.Obj().Name() + "." + sel.Sel.Name
					if want[key] && (!ctor || e.db.NonNil[key]) {
						bad = append(bad, key+" assigned in "+fd.Name.Name+" at "+posStr(e.fset, lhs.Pos()))
					}
				}
				ast.Inspect(fd.Body, func(n ast.Node) bool {
					switch st := n.(type) {
					case *ast.AssignStmt:
						for _, l := range st.Lhs {
							check(l)
						}
					case *ast.IncDecStmt:
						check(st.X)
					case *ast.UnaryExpr:
						if st.Op.String() == "&" {
							check(st.X) // address taken: could be written through the pointer
						}
					}
					return true
				})
			}
		}
	}
	return bad
}

// checkNonNil verifies syntactically, over all loaded packages, what a `nonnil Type.field`
// directive relies on: every composite literal of Type sets the field to the result of a call of
// a constructor (a function whose name starts with New/new) or to &literal; Type is never created
// by new(Type), by a var declaration without initialiser, or as an array/slice element or struct
// field by value.  (That the field is never assigned afterwards is checked by checkImmutable.)
func (e *Engine) checkNonNil() []string {
	if len(e.db.NonNil) == 0 {
		return nil
	}
	fieldsOf := map[string][]string{} // pkg.Type -> fields
	for k := range e.db.NonNil {
		i := strings.LastIndex(k, ".")
		fieldsOf[k[:i]] = append(fieldsOf[k[:i]], k[i+1:])
	}
	typeKey := func(t types.Type) string {
		if t == nil {
			return ""
		}
		n, ok := types.Unalias(t).(*types.Named)
		if !ok || n.Obj().Pkg() == nil {
			return ""
		}
		return n.Obj().Pkg().Path() + "." + n.Obj().Name()
	}
	goodValue := func(v ast.Expr) bool {
		switch u := unparen(v).(type) {
		case *ast.CallExpr:
			name := ""
			switch f := unparen(u.Fun).(type) {
			case *ast.Ident:
				name = f.Name
			case *ast.SelectorExpr:
				name = f.Sel.Name
			}
			return strings.HasPrefix(name, "New") || (strings.HasPrefix(name, "new") && name != "new")
		case *ast.UnaryExpr:
			if u.Op.String() == "&" {
				_, ok := unparen(u.X).(*ast.CompositeLit)
				return ok
			}
		}
		return false
	}
	var bad []string
	for _, p := range e.pkgs {
		for _, f := range p.Syntax {
			ast.Inspect(f, func(n ast.Node) bool {
				switch u := n.(type) {
				case *ast.CompositeLit:
					tk := typeKey(p.TypesInfo.TypeOf(u))
					fs, ok := fieldsOf[tk]
					if !ok {
						return true
					}
					for _, fld := range fs {
						found := false
						for _, el := range u.Elts {
							kv, ok := el.(*ast.KeyValueExpr)
							if !ok {
								continue
							}
							if id, ok := kv.Key.(*ast.Ident); ok && id.Name == fld {
								found = goodValue(kv.Value)
							}
						}
						if !found {
							bad = append(bad, tk+"."+fld+" not set to a constructor result in the literal at "+posStr(e.fset, u.Pos()))
						}
					}
				case *ast.CallExpr:
					if id, ok := unparen(u.Fun).(*ast.Ident); ok && id.Name == "new" && len(u.Args) == 1 {
						if tk := typeKey(p.TypesInfo.TypeOf(u.Args[0])); fieldsOf[tk] != nil {
							bad = append(bad, tk+" created zero-valued by new() at "+posStr(e.fset, u.Pos()))
						}
					}
				case *ast.ValueSpec:
					if u.Type != nil && len(u.Values) == 0 {
						if tk := typeKey(p.TypesInfo.TypeOf(u.Type)); fieldsOf[tk] != nil {
							bad = append(bad, tk+" declared zero-valued at "+posStr(e.fset, u.Pos()))
						}
					}
				case *ast.ArrayType:
					if tk := typeKey(p.TypesInfo.TypeOf(u.Elt)); fieldsOf[tk] != nil {
						bad = append(bad, tk+" used by value as an element type at "+posStr(e.fset, u.Pos()))
					}
				case *ast.Field:
					if tk := typeKey(p.TypesInfo.TypeOf(u.Type)); fieldsOf[tk] != nil {
						bad = append(bad, tk+" used by value as a field/parameter at "+posStr(e.fset, u.Pos()))
					}
				}
				return true
			})
		}
	}
	return bad
}
