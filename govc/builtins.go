package main

import (
	"go/ast"
	"go/token"
	"go/types"
	"math/big"
	"strings"
)

func (x *Exec) evalBuiltin(s *State, name string, e *ast.CallExpr) Val {
	t := x.typeOf(e)
	switch name {
	case "len", "cap":
		v := x.eval(s, e.Args[0])
		at := x.typeOf(e.Args[0])
		intT := types.Typ[types.Int]
		switch u := under(at).(type) {
		case *types.Slice:
			if name == "len" {
				return Val{K: KInt, T: intT, S: v.Len, Lo: big0, Hi: maxLen}
			}
			return Val{K: KInt, T: intT, S: v.Cap, Lo: big0, Hi: maxLen}
		case *types.Array:
			return constInt(intT, big.NewInt(u.Len()))
		case *types.Pointer:
			if au, ok := under(u.Elem()).(*types.Array); ok {
				return constInt(intT, big.NewInt(au.Len()))
			}
		case *types.Basic:
			l := x.strLen(v)
			if _, lit := isNumLit(l); !lit {
				s.assume(mkAnd(mkCmp("<=", "0", l), mkCmp("<=", l, num(maxLen))))
			}
			return Val{K: KInt, T: intT, S: l, Lo: big0, Hi: maxLen}
		case *types.Map:
			l := x.mapLen(s, at, v.S)
			return Val{K: KInt, T: intT, S: l, Lo: big0, Hi: maxLen}
		case *types.Chan:
			r := s.freshVal("chanlen", intT)
			s.assume(mkCmp("<=", "0", r.S))
			r.Lo = big0
			return r
		}
		x.eng.unsupported(e.Pos(), "%s of %s", name, at)
	case "new":
		pt := t.(*types.Pointer)
		r := s.alloc("new")
		s.storePtr(pt.Elem(), r, zeroVal(pt.Elem()))
		return Val{K: KInt, T: t, S: r}
	case "make":
		switch u := under(t).(type) {
		case *types.Slice:
			n := x.eval(s, e.Args[1])
			c := n
			if len(e.Args) > 2 {
				c = x.eval(s, e.Args[2])
			}
			g := mkAnd(mkCmp("<=", "0", n.S), mkCmp("<=", n.S, c.S))
			x.oblige(s, "make", e.Pos(), g, "make: 0 <= len <= cap")
			s.assume(g)
			if lim := x.fn.allocLimit(); lim != "" {
				x.oblige(s, "alloc", e.Pos(), mkCmp("<=", c.S, lim), "allocation size within limit "+lim)
			}
			s.assume(mkCmp("<=", c.S, num(maxLen)))
			ref := s.alloc("make")
			var arrs []string
			for _, l := range leavesOf(u.Elem()) {
				arrs = append(arrs, zeroArray(arrSort(l.sort)))
			}
			s.setBacking(u.Elem(), ref, arrs)
			return Val{K: KSlice, T: t, Ref: ref, Off: "0", Len: n.S, Cap: c.S}
		case *types.Map:
			return x.makeMap(s, t)
		case *types.Chan:
			r := s.alloc("chan")
			if tc := x.topContract(); tc != nil && tc.Opts["chanstate"] != "" {
				cur := s.heapGet(chanClosedArr, arrSort(sBool))
				s.heapSet(chanClosedArr, arrSort(sBool), mkSto(cur, r, "false"), r)
			}
			capT := "0"
			if len(e.Args) > 1 {
				capT = x.eval(s, e.Args[1]).S
			}
			x.eng.usedUF["chan.cap"] = true
			s.assume(mkEq(app("chan.cap", r), capT))
			return Val{K: KInt, T: t, S: r}
		}
		x.eng.unsupported(e.Pos(), "make of %s", t)
	case "append":
		return x.evalAppend(s, e)
	case "copy":
		if se, ok := unparen(e.Args[0]).(*ast.SliceExpr); ok && se.Low == nil && se.High == nil && !se.Slice3 {
			// copy(v.f[:], src) into an array that is part of a variable's value (not an array variable
			// living in a backing store): a value-level update of that array
			if au, ok := under(x.typeOf(se.X)).(*types.Array); ok {
				_, isIdent := unparen(se.X).(*ast.Ident)
				ls := leavesOf(au.Elem())
				if !isIdent && len(ls) == 1 {
					cur := x.eval(s, se.X)
					src := x.eval(s, e.Args[1])
					if src.K == KStr {
						src = x.stringToBytes(s, src, types.NewSlice(au.Elem()))
					}
					if cur.K == KArr && cur.Ref == "" && src.K == KSlice {
						n := s.define("ncopy", sInt, mkIte(mkCmp("<=", itoa(int(au.Len())), src.Len), itoa(int(au.Len())), src.Len))
						name := "M$" + typeKey(au.Elem()) + "$" + ls[0].path
						srcArr := mkSel(s.heapGet(name, arrSort(arrSort(ls[0].sort))), src.Ref)
						na := x.eng.fresh("cp.val", arrSort(ls[0].sort))
						k := "k!c"
						s.assume(sf("(forall ((%s Int)) (! (= (select %s %s) (ite (and (<= 0 %s) (< %s %s)) (select %s (+ %s %s)) (select %s %s))) :pattern ((select %s %s))))",
							k, na, k, k, k, n, srcArr, src.Off, k, cur.S, k, na, k))
						x.assign(s, se.X, Val{K: KArr, T: cur.T, S: na})
						return Val{K: KInt, T: types.Typ[types.Int], S: n, Lo: big0, Hi: maxLen}
					}
				}
			}
		}
		if se, ok := unparen(e.Args[0]).(*ast.SliceExpr); ok && !se.Slice3 {
			// copy(p[lo:hi], src) where p points to an array: a value-level update of the pointed-to array
			if pt, ok := under(x.typeOf(se.X)).(*types.Pointer); ok {
				if au, ok := under(pt.Elem()).(*types.Array); ok && len(leavesOf(au.Elem())) == 1 {
					ls := leavesOf(au.Elem())
					ptr := x.eval(s, se.X)
					x.nilCheck(s, ptr.S, e.Pos(), "nil pointer dereference (slice of pointer to array)")
					cur := s.loadPtr(pt.Elem(), ptr.S)
					src := x.eval(s, e.Args[1])
					if src.K == KStr {
						src = x.stringToBytes(s, src, types.NewSlice(au.Elem()))
					}
					if cur.K == KArr && src.K == KSlice {
						lo, hi := "0", itoa(int(au.Len()))
						if se.Low != nil {
							lo = x.eval(s, se.Low).S
						}
						if se.High != nil {
							hi = x.eval(s, se.High).S
						}
						g := mkAnd(mkCmp("<=", "0", lo), mkCmp("<=", lo, hi), mkCmp("<=", hi, itoa(int(au.Len()))))
						x.oblige(s, "slice", e.Pos(), g, "slice bounds in range")
						s.assume(g)
						room := mkSub(hi, lo)
						n := s.define("ncopy", sInt, mkIte(mkCmp("<=", room, src.Len), room, src.Len))
						name := "M$" + typeKey(au.Elem()) + "$" + ls[0].path
						srcArr := mkSel(s.heapGet(name, arrSort(arrSort(ls[0].sort))), src.Ref)
						na := x.eng.fresh("cp.val", arrSort(ls[0].sort))
						k := "k!c"
						s.assume(sf("(forall ((%s Int)) (! (= (select %s %s) (ite (and (<= %s %s) (< %s (+ %s %s))) (select %s (+ %s (- %s %s))) (select %s %s))) :pattern ((select %s %s))))",
							k, na, k, lo, k, k, lo, n, srcArr, src.Off, k, lo, cur.S, k, na, k))
						s.storePtr(pt.Elem(), ptr.S, Val{K: KArr, T: pt.Elem(), S: na})
						return Val{K: KInt, T: types.Typ[types.Int], S: n, Lo: big0, Hi: maxLen}
					}
				}
			}
		}
		dst := x.eval(s, e.Args[0])
		src := x.eval(s, e.Args[1])
		return x.doCopy(s, dst, src, e.Pos())
	case "delete":
		m := x.eval(s, e.Args[0])
		mt := x.typeOf(e.Args[0])
		k := x.convertTo(s, x.eval(s, e.Args[1]), under(mt).(*types.Map).Key(), e.Pos())
		x.mapDelete(s, mt, m.S, k)
		return Val{K: KTuple}
	case "panic":
		x.eval(s, e.Args[0])
		if tc := x.topContract(); tc != nil && tc.Opts["allow_panic"] != "" {
			// stated in the contract: the function's own defensive panic is not claimed unreachable
			x.eng.note("explicit panic statements of " + x.eng.curTop.name + " are not claimed unreachable (opt allow_panic)")
		} else {
			x.oblige(s, "panic", e.Pos(), "false", "panic("+exprString(e.Args[0])+") is unreachable")
		}
		s.dead = true
		return Val{}
	case "min", "max":
		acc := x.eval(s, e.Args[0])
		for _, a := range e.Args[1:] {
			b := x.eval(s, a)
			op := "<="
			if name == "max" {
				op = ">="
			}
			r := Val{K: KInt, T: t, S: s.define(name, sInt, mkIte(mkCmp(op, acc.S, b.S), acc.S, b.S))}
			if acc.Lo != nil && b.Lo != nil && acc.Hi != nil && b.Hi != nil {
				if name == "min" {
					r.Lo, r.Hi = bmin(acc.Lo, b.Lo), bmin(acc.Hi, b.Hi)
				} else {
					r.Lo, r.Hi = bmax(acc.Lo, b.Lo), bmax(acc.Hi, b.Hi)
				}
			}
			acc = r
		}
		return acc
	case "close":
		ch := x.eval(s, e.Args[0])
		x.chanClose(s, ch, e)
		return Val{K: KTuple}
	case "print", "println":
		for _, a := range e.Args {
			x.eval(s, a)
		}
		return Val{K: KTuple}
	case "clear":
		x.eng.unsupported(e.Pos(), "clear")
	case "recover":
		return zeroVal(t)
	}
	x.eng.unsupported(e.Pos(), "builtin %s", name)
	return Val{}
}

// allocLimit: contract option "alloclimit" turns every make into an allocation-size obligation.
func (f *FnCtx) allocLimit() string {
	for c := f; c != nil; c = c.parent {
		if c.contract != nil {
			if v, ok := c.contract.Opts["alloclimit"]; ok {
				return v
			}
		}
	}
	return ""
}

func (x *Exec) evalAppend(s *State, e *ast.CallExpr) Val {
	base := x.eval(s, e.Args[0])
	st := under(x.typeOf(e)).(*types.Slice)
	et := st.Elem()
	rt := x.typeOf(e)
	// append(b, str...) / append(b, other...)
	if e.Ellipsis.IsValid() {
		src := x.eval(s, e.Args[1])
		if src.K == KStr {
			src = x.stringToBytes(s, src, rt)
		}
		return x.appendSlice(s, base, src, et, rt, e.Pos())
	}
	if len(e.Args) == 1 {
		return base
	}
	var vals []Val
	for _, a := range e.Args[1:] {
		vals = append(vals, x.convertTo(s, x.eval(s, a), et, a.Pos()))
	}
	n := numI(int64(len(vals)))
	return x.appendGeneric(s, base, n, et, rt, e.Pos(), func(st *State, ref, start string) {
		for i, v := range vals {
			st.storeElem(et, ref, mkAdd(start, numI(int64(i))), v)
		}
	})
}

// appendGeneric implements append: in place when capacity suffices, otherwise a fresh backing store
// with the old contents copied and an unconstrained larger capacity.
func (x *Exec) appendGeneric(s *State, base Val, n string, et, rt types.Type, pos token.Pos, fill func(st *State, ref, start string)) Val {
	newLen := s.define("nlen", sInt, mkAdd(base.Len, n))
	fitsCond := mkCmp("<=", newLen, base.Cap)
	anc := s.pc
	// in place
	a := s.clone()
	a.assume(fitsCond)
	x.checkRO(a, base.Ref, pos)
	fill(a, base.Ref, mkAdd(base.Off, base.Len))
	ra := Val{K: KSlice, T: rt, Ref: base.Ref, Off: base.Off, Len: newLen, Cap: base.Cap}
	// reallocate
	b := s.clone()
	b.assume(mkNot(fitsCond))
	ref := b.alloc("app")
	ncap := x.eng.fresh("ncap", sInt)
	b.assume(mkAnd(mkCmp("<=", newLen, ncap), mkCmp("<=", ncap, num(maxLen))))
	old := b.backing(et, base.Ref)
	var arrs []string
	for i, l := range leavesOf(et) {
		if base.Off == "0" {
			// the copy of a slice starting at index 0: the new store equals the old one on [0,len);
			// cells beyond len are unobservable garbage (reslicing past len after append is not modelled
			// as zero memory) - take the old array as a whole, no quantifier needed
			x.eng.note("append reallocation of a slice with offset 0 reuses the old array term for cells beyond len (fresh memory is zero in Go)")
			arrs = append(arrs, old[i])
			continue
		}
		na := x.eng.fresh("app.arr", arrSort(l.sort))
		x.eng.innerTypingAxiom(na, l.typ)
		if cnt, ok := isNumLit(base.Len); ok && cnt.IsInt64() && cnt.Int64() <= 16 {
			for j := int64(0); j < cnt.Int64(); j++ {
				b.assume(mkEq(mkSel(na, numI(j)), mkSel(old[i], mkAdd(base.Off, numI(j)))))
			}
			arrs = append(arrs, na)
			continue
		}
		k := "k!a"
		b.assume(sf("(forall ((%s Int)) (! (=> (and (<= 0 %s) (< %s %s)) (= (select %s %s) (select %s (+ %s %s)))) :pattern ((select %s %s))))",
			k, k, k, base.Len, na, k, old[i], base.Off, k, na, k))
		arrs = append(arrs, na)
	}
	b.setBacking(et, ref, arrs)
	fill(b, ref, base.Len)
	rb := Val{K: KSlice, T: rt, Ref: ref, Off: "0", Len: newLen, Cap: ncap}
	tmp := types.NewVar(token.NoPos, nil, "appres", rt)
	a.env[tmp], b.env[tmp] = ra, rb
	// both a and b may be statically impossible; mergeStates handles the general case
	preBacking := s.backing(et, base.Ref) // element arrays of the old slice, before the append
	m := x.mergeStates(anc, []*State{a, b})
	res := m.env[tmp]
	delete(m.env, tmp)
	// redundant but useful fact (it follows from both paths): the first len elements are preserved.
	// Stated over a plain index variable so that E-matching finds it without arithmetic in the pattern.
	if _, isLit := isNumLit(base.Len); !isLit || base.Len != "0" {
		post := m.backing(et, res.Ref)
		for i := range post {
			j := "j!ap"
			m.assume(sf("(forall ((%s Int)) (! (=> (and (<= %s %s) (< %s (+ %s %s))) (= (select %s %s) (select %s (+ (- %s %s) %s)))) :pattern ((select %s %s))))",
				j, res.Off, j, j, res.Off, base.Len, post[i], j, preBacking[i], j, res.Off, base.Off, post[i], j))
		}
	}
	*s = *m
	return res
}

func (x *Exec) appendSlice(s *State, base, src Val, et, rt types.Type, pos token.Pos) Val {
	return x.appendGeneric(s, base, src.Len, et, rt, pos, func(st *State, ref, start string) {
		x.copyRange(st, et, ref, start, src.Ref, src.Off, src.Len)
	})
}

// copyRange: dst[start+i] = src[soff+i] for 0 <= i < n (memmove semantics).
func (x *Exec) copyRange(s *State, et types.Type, dref, dstart, sref, soff, n string) {
	key := typeKey(et)
	// small constant length: explicit element stores (quantifier-free)
	if cnt, ok := isNumLit(n); ok && cnt.IsInt64() && cnt.Int64() <= 16 {
		c := cnt.Int64()
		if c <= 0 {
			return
		}
		for _, l := range leavesOf(et) {
			name := "M$" + key + "$" + l.path
			srt := arrSort(arrSort(l.sort))
			cur := s.heapGet(name, srt)
			srcArr := mkSel(cur, sref)
			na := mkSel(cur, dref)
			// read all source elements first (memmove semantics)
			vals := make([]string, c)
			for i := int64(0); i < c; i++ {
				vals[i] = mkSel(srcArr, mkAdd(soff, numI(i)))
			}
			for i := int64(0); i < c; i++ {
				na = mkSto(na, mkAdd(dstart, numI(i)), vals[i])
			}
			s.heapSet(name, srt, mkSto(cur, dref, na), dref)
		}
		return
	}
	for _, l := range leavesOf(et) {
		name := "M$" + key + "$" + l.path
		srt := arrSort(arrSort(l.sort))
		cur := s.heapGet(name, srt)
		srcArr := mkSel(cur, sref)
		dstArr := mkSel(cur, dref)
		na := x.eng.fresh("cp.arr", arrSort(l.sort))
		k := "k!c"
		s.assume(sf("(forall ((%s Int)) (! (= (select %s %s) (ite (and (<= %s %s) (< %s (+ %s %s))) (select %s (+ %s (- %s %s))) (select %s %s))) :pattern ((select %s %s))))",
			k, na, k, dstart, k, k, dstart, n, srcArr, soff, k, dstart, dstArr, k, na, k))
		s.heapSet(name, srt, mkSto(cur, dref, na), dref)
	}
}

func (x *Exec) doCopy(s *State, dst, src Val, pos token.Pos) Val {
	intT := types.Typ[types.Int]
	et := under(dst.T).(*types.Slice).Elem()
	if src.K == KStr {
		src = x.stringToBytes(s, src, dst.T)
	}
	n := s.define("ncopy", sInt, mkIte(mkCmp("<=", dst.Len, src.Len), dst.Len, src.Len))
	x.checkRO(s, dst.Ref, pos)
	x.copyRange(s, et, dst.Ref, dst.Off, src.Ref, src.Off, n)
	return Val{K: KInt, T: intT, S: n, Lo: big0, Hi: maxLen}
}

// ---- maps -------------------------------------------------------------------------

func mapKeySort(mt *types.Map) string {
	switch kindOfType(mt.Key()) {
	case KStr:
		return sStr
	case KBool:
		return sBool
	case KInt:
		return sInt
	}
	return ""
}

func (x *Exec) mapArrays(s *State, t types.Type) (pres string, presSort string, vals []string, valSorts []string, names []string) {
	mt := under(t).(*types.Map)
	ks := mapKeySort(mt)
	if ks == "" {
		x.eng.unsupported(token.NoPos, "map with key type %s", mt.Key())
	}
	key := "K$" + typeKey(mt.Key()) + "$" + typeKey(mt.Elem())
	presSort = arrSort("(Array " + ks + " Bool)")
	pres = key + "$present"
	for _, l := range leavesOf(mt.Elem()) {
		names = append(names, key+"$"+l.path)
		valSorts = append(valSorts, arrSort("(Array "+ks+" "+l.sort+")"))
	}
	return
}

func (x *Exec) makeMap(s *State, t types.Type) Val {
	mt := under(t).(*types.Map)
	ks := mapKeySort(mt)
	pres, ps, _, _, _ := x.mapArrays(s, t)
	r := s.alloc("map")
	empty := "((as const (Array " + ks + " Bool)) false)"
	s.heapSet(pres, ps, mkSto(s.heapGet(pres, ps), r, empty), r)
	x.eng.usedUF["mp.card"] = true
	return Val{K: KInt, T: t, S: r}
}

func (x *Exec) mapLoad(s *State, t types.Type, m string, k Val) (Val, string) {
	mt := under(t).(*types.Map)
	pres, ps, _, vs, names := x.mapArrays(s, t)
	ok := mkAnd(mkNot(mkEq(m, "0")), mkSel(mkSel(s.heapGet(pres, ps), m), k.S))
	ls := leavesOf(mt.Elem())
	z := flatten(zeroVal(mt.Elem()))
	terms := make([]string, len(ls))
	for i := range ls {
		terms[i] = mkIte(ok, mkSel(mkSel(s.heapGet(names[i], vs[i]), m), k.S), z[i])
	}
	v, _ := unflatten(mt.Elem(), terms)
	s.assumeTyped(v)
	if v.K == KInt {
		v.Lo, v.Hi = nil, nil
	}
	return s.annotate(v), ok
}

func (x *Exec) mapStore(s *State, t types.Type, m string, k, v Val) {
	pres, ps, _, vs, names := x.mapArrays(s, t)
	cur := s.heapGet(pres, ps)
	s.heapSet(pres, ps, mkSto(cur, m, mkSto(mkSel(cur, m), k.S, "true")), m)
	terms := flatten(v)
	for i := range names {
		c := s.heapGet(names[i], vs[i])
		s.heapSet(names[i], vs[i], mkSto(c, m, mkSto(mkSel(c, m), k.S, terms[i])), m)
	}
}

func (x *Exec) mapDelete(s *State, t types.Type, m string, k Val) {
	pres, ps, _, _, _ := x.mapArrays(s, t)
	cur := s.heapGet(pres, ps)
	// delete on a nil map is a no-op
	s.heapSet(pres, ps, mkIte(mkEq(m, "0"), cur, mkSto(cur, m, mkSto(mkSel(cur, m), k.S, "false"))), m)
}

func (x *Exec) mapLen(s *State, t types.Type, m string) string {
	pres, ps, _, _, _ := x.mapArrays(s, t)
	x.eng.usedUF["mp.card"] = true
	mt := under(t).(*types.Map)
	name := "mp.card." + strings.Trim(mapKeySort(mt), "()")
	x.eng.dynUF[name] = &UFDecl{Name: name, Args: []string{"(Array " + mapKeySort(mt) + " Bool)"}, Ret: sInt}
	l := app(name, mkSel(s.heapGet(pres, ps), m))
	s.assume(mkCmp("<=", "0", l))
	return l
}

// ---- channels (events only; values received are arbitrary) -------------------------

func (x *Exec) chanRecv(s *State, e *ast.UnaryExpr, commaOk bool) Val {
	ch := x.eval(s, e.X)
	ct := under(x.typeOf(e.X)).(*types.Chan)
	v := s.freshVal("recv", ct.Elem())
	x.eng.note("channel receives yield arbitrary values (no channel content model)")
	_ = ch
	// a receive from ctx.Done() means the context is done: ctx.Err() is non-nil from now on
	if call, ok := unparen(e.X).(*ast.CallExpr); ok {
		if sel, ok := unparen(call.Fun).(*ast.SelectorExpr); ok && sel.Sel.Name == "Done" && len(call.Args) == 0 {
			if s.ctxDone == nil {
				s.ctxDone = map[string]string{}
			}
			s.ctxDone[exprString(sel.X)] = "true"
		}
	}
	// contract option recv_nonnil: pointers/interfaces sent on the channels of this function are never nil
	if tc := x.topContract(); tc != nil && tc.Opts["recv_nonnil"] != "" && !commaOk {
		switch v.K {
		case KInt:
			if _, isPtr := under(ct.Elem()).(*types.Pointer); isPtr {
				s.assume(mkNot(mkEq(v.S, "0")))
				x.eng.note("values received from channels in " + x.eng.curTop.name + " are assumed non-nil (contract option recv_nonnil)")
			}
		case KIface:
			s.assume(mkNot(mkEq(v.Tag, "0")))
		}
	}
	if commaOk {
		ok := s.freshVal("recvok", types.Typ[types.Bool])
		return Val{K: KTuple, Fs: []Val{v, ok}}
	}
	return v
}

func (x *Exec) chanSend(s *State, st *ast.SendStmt) {
	x.eval(s, st.Chan)
	x.eval(s, st.Value)
}

func (x *Exec) chanClose(s *State, ch Val, e *ast.CallExpr) {
	x.nilCheck(s, ch.S, e.Pos(), "close of nil channel")
	if tc := x.topContract(); tc != nil && tc.Opts["chanstate"] != "" {
		// closed-state of channels (opt chanstate): closing twice panics
		cur := s.heapGet(chanClosedArr, arrSort(sBool))
		x.oblige(s, "close", e.Pos(), mkNot(mkSel(cur, ch.S)), "close of closed channel")
		s.heapSet(chanClosedArr, arrSort(sBool), mkSto(cur, ch.S, "true"), ch.S)
	}
}

// chanClosedArr: heap array channel -> closed?  (unknown calls havoc it like everything else)
const chanClosedArr = "H$chan$closed"

// execSelect: nondeterministic choice among the cases (each is explored).
func (x *Exec) execSelect(s *State, st *ast.SelectStmt, label string) *State {
	anc := s.pc
	tg := &target{label: label}
	x.targets = append(x.targets, tg)
	var outs []*State
	for _, c := range st.Body.List {
		cc := c.(*ast.CommClause)
		b := s.clone()
		// distinguish the branches in the path condition so merged values stay apart
		ch := x.eng.fresh("select", sBool)
		b.assume(ch)
		if cc.Comm != nil {
			b = x.execStmt(b, cc.Comm)
		}
		if b != nil {
			outs = append(outs, x.execBlock(b, cc.Body))
		}
	}
	x.targets = x.targets[:len(x.targets)-1]
	outs = append(outs, tg.breaks...)
	return x.mergeStates(anc, outs)
}
