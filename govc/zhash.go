package main

// Streaming hashes (crypto/sha256.New, crypto/sha1.New and the hash.Hash methods Write / Sum /
// Reset): a hash object accumulates the bytes written to it (ghost sequence per object); Sum(b)
// appends the digest of that sequence, the mathematical function sha256 / sha1 declared in
// /verif/specs/assumed.spec, to b.

import (
	"go/ast"
	"go/types"
)

const (
	hashDataArr = "H$hash$data"
	hashLenArr  = "H$hash$len"
	hashKindArr = "H$hash$kind"
)

func init() {
	intrinsics["crypto/sha256.New"] = hashNew("256")
	intrinsics["crypto/sha1.New"] = hashNew("1")
	intrinsics["io.Writer.Write"] = hashWrite
	intrinsics["hash.Hash.Sum"] = hashSum
	intrinsics["hash.Hash.Reset"] = hashReset
}

func isHashType(t types.Type) bool {
	n, ok := types.Unalias(t).(*types.Named)
	return ok && n.Obj().Pkg() != nil && n.Obj().Pkg().Path() == "hash" && n.Obj().Name() == "Hash"
}

func hashNew(kind string) intrinsic {
	return func(x *Exec, s *State, e *ast.CallExpr, c callee) (Val, bool) {
		r := s.alloc("hash")
		v := s.freshVal("hash", x.typeOf(e))
		if v.K != KIface {
			return Val{}, false
		}
		s.assume(mkNot(mkEq(v.Tag, "0")))
		v.Dat = r
		ln := s.heapGet(hashLenArr, arrSort(sInt))
		s.heapSet(hashLenArr, arrSort(sInt), mkSto(ln, r, "0"), r)
		kd := s.heapGet(hashKindArr, arrSort(sInt))
		s.heapSet(hashKindArr, arrSort(sInt), mkSto(kd, r, kind), r)
		x.eng.note("streaming hashes: a hash.Hash accumulates what is written to it; Sum appends the SHA digest of that byte sequence")
		return v, true
	}
}

func hashWrite(x *Exec, s *State, e *ast.CallExpr, c callee) (Val, bool) {
	if c.recvX == nil || !isHashType(x.typeOf(c.recvX)) || len(e.Args) != 1 {
		return Val{}, false
	}
	h := x.eval(s, c.recvX)
	p := x.eval(s, e.Args[0])
	if h.K != KIface || p.K != KSlice {
		return Val{}, false
	}
	x.nilCheck(s, h.Tag, e.Pos(), "nil hash.Hash")
	et := under(p.T).(*types.Slice).Elem()
	parr := s.backing(et, p.Ref)[0]
	x.eng.usedUF["sq.cat"], x.eng.usedUF["sq.canon"] = true, true
	data := s.heapGet(hashDataArr, arrSort(arrSort(sInt)))
	ln := s.heapGet(hashLenArr, arrSort(sInt))
	curLen := mkSel(ln, h.Dat)
	nd := app("sq.cat", mkSel(data, h.Dat), curLen, app("sq.canon", parr, p.Off, p.Len), p.Len)
	s.heapSet(hashDataArr, arrSort(arrSort(sInt)), mkSto(data, h.Dat, nd), h.Dat)
	s.heapSet(hashLenArr, arrSort(sInt), mkSto(ln, h.Dat, mkAdd(curLen, p.Len)), h.Dat)
	intT := types.Typ[types.Int]
	errT := types.Universe.Lookup("error").Type()
	return Val{K: KTuple, Fs: []Val{{K: KInt, T: intT, S: p.Len, Lo: big0, Hi: maxLen}, zeroVal(errT)}}, true
}

func hashSum(x *Exec, s *State, e *ast.CallExpr, c callee) (Val, bool) {
	if c.recvX == nil || len(e.Args) != 1 {
		return Val{}, false
	}
	h := x.eval(s, c.recvX)
	b := x.convertTo(s, x.eval(s, e.Args[0]), x.typeOf(e), e.Pos())
	if h.K != KIface || b.K != KSlice {
		return Val{}, false
	}
	x.nilCheck(s, h.Tag, e.Pos(), "nil hash.Hash")
	data := s.heapGet(hashDataArr, arrSort(arrSort(sInt)))
	ln := s.heapGet(hashLenArr, arrSort(sInt))
	kd := s.heapGet(hashKindArr, arrSort(sInt))
	kind := mkSel(kd, h.Dat)
	if _, ok := x.eng.db.UFs["sha256"]; !ok {
		return Val{}, false
	}
	x.eng.usedUF["sha256"], x.eng.usedUF["sha1"] = true, true
	// the digest: sha256 (32 bytes) or sha1 (20 bytes) of the accumulated sequence
	d256 := app("sha256", mkSel(data, h.Dat), mkSel(ln, h.Dat))
	d1 := app("sha1", mkSel(data, h.Dat), mkSel(ln, h.Dat))
	digest := s.define("digest", arrSort(sInt), mkIte(mkEq(kind, "256"), d256, d1))
	dlen := s.define("digestlen", sInt, mkIte(mkEq(kind, "256"), "32", "20"))
	bt := under(b.T).(*types.Slice).Elem()
	ref := s.alloc("digest")
	s.setBacking(bt, ref, []string{digest})
	src := Val{K: KSlice, T: b.T, Ref: ref, Off: "0", Len: dlen, Cap: dlen}
	return x.appendSlice(s, b, src, bt, b.T, e.Pos()), true
}

func hashReset(x *Exec, s *State, e *ast.CallExpr, c callee) (Val, bool) {
	if c.recvX == nil {
		return Val{}, false
	}
	h := x.eval(s, c.recvX)
	if h.K != KIface {
		return Val{}, false
	}
	ln := s.heapGet(hashLenArr, arrSort(sInt))
	s.heapSet(hashLenArr, arrSort(sInt), mkSto(ln, h.Dat, "0"), h.Dat)
	return Val{K: KTuple}, true
}
