package main

// Symbolic values. A Go value is a tree whose leaves are SMT terms of sort
// Int / Bool / Str / (Array Int X).  Structs, slices and interfaces are
// flattened at the meta level, so no SMT datatypes are needed.

import (
	"fmt"
	"go/ast"
	"go/types"
	"math/big"
	"strings"
)

type Kind int

const (
	KNone Kind = iota
	KInt       // integers, pointers, channels, maps (reference), unsafe pointers
	KBool
	KStr
	KFloat // uninterpreted (sort Int, no arithmetic)
	KArr   // Go array of scalar elements: SMT (Array Int S)
	KStruct
	KSlice
	KIface
	KFunc
	KTuple
	KSeq // spec-level byte/int sequence: (arr,len)
)

type FuncVal struct {
	Lit   *ast.FuncLit // closure literal (env of the defining function is shared)
	Obj   *types.Func  // declared function / method
	Recv  *Val         // bound receiver for method values
	Owner *FnCtx       // function context where Lit was created
}

type Val struct {
	K   Kind
	T   types.Type
	S   string // scalar / array term; KSeq: array term
	Fs  []Val  // struct fields, tuple members
	Ref string
	Off string
	Len string // KSlice, KSeq length
	Cap string
	Tag string
	Dat string
	Lo  *big.Int
	Hi  *big.Int
	Fn  *FuncVal
	HS  *State // spec evaluation: heap state this value reads from (set by old())
	Sh  uint   // produced by "<< Sh" (hint for disjoint-OR recognition)
}

func (v Val) String() string {
	switch v.K {
	case KInt, KBool, KStr, KArr, KFloat:
		return v.S
	case KSlice:
		return fmt.Sprintf("slice(%s,%s,%s,%s)", v.Ref, v.Off, v.Len, v.Cap)
	case KIface:
		return fmt.Sprintf("iface(%s,%s)", v.Tag, v.Dat)
	case KStruct, KTuple:
		var p []string
		for _, f := range v.Fs {
			p = append(p, f.String())
		}
		return "{" + strings.Join(p, ", ") + "}"
	case KSeq:
		return fmt.Sprintf("seq(%s,%s)", v.S, v.Len)
	case KFunc:
		return "func"
	}
	return "<none>"
}

func intVal(t types.Type, s string) Val { return Val{K: KInt, T: t, S: s} }
func boolVal(s string) Val             { return Val{K: KBool, T: types.Typ[types.Bool], S: s} }

func constInt(t types.Type, n *big.Int) Val {
	return Val{K: KInt, T: t, S: num(n), Lo: n, Hi: n}
}

func (v Val) withBounds(lo, hi *big.Int) Val {
	v.Lo, v.Hi = lo, hi
	return v
}

// ---- type classification -------------------------------------------------

var emptyStruct = types.NewStruct(nil, nil)

func under(t types.Type) types.Type {
	if t == nil {
		return nil
	}
	if m := atomicModelType(t); m != nil {
		return m
	}
	// math/big.Int is modelled as a mathematical (unbounded) integer cell
	if n, ok := types.Unalias(t).(*types.Named); ok && n.Obj().Pkg() != nil && n.Obj().Pkg().Path() == "math/big" && n.Obj().Name() == "Int" {
		return types.Typ[types.UntypedInt]
	}
	if isSyncType(t) {
		return emptyStruct
	}
	return types.Unalias(t).Underlying()
}

// intRange returns the value range of an integer type (sizes for amd64).
func intRange(t types.Type) (lo, hi *big.Int, ok bool) {
	b, isB := under(t).(*types.Basic)
	if !isB {
		return nil, nil, false
	}
	var bits uint
	signed := true
	switch b.Kind() {
	case types.Int8:
		bits = 8
	case types.Int16:
		bits = 16
	case types.Int32:
		bits = 32
	case types.Int64, types.Int:
		bits = 64
	case types.Uint8:
		bits, signed = 8, false
	case types.Uint16:
		bits, signed = 16, false
	case types.Uint32:
		bits, signed = 32, false
	case types.Uint64, types.Uint, types.Uintptr:
		bits, signed = 64, false
	default:
		return nil, nil, false
	}
	if signed {
		h := pow2(bits - 1)
		return new(big.Int).Neg(h), new(big.Int).Sub(h, big.NewInt(1)), true
	}
	return big.NewInt(0), new(big.Int).Sub(pow2(bits), big.NewInt(1)), true
}

func isUnsigned(t types.Type) bool {
	b, ok := under(t).(*types.Basic)
	return ok && b.Info()&types.IsUnsigned != 0
}

func isIntegerType(t types.Type) bool {
	b, ok := under(t).(*types.Basic)
	return ok && b.Info()&types.IsInteger != 0
}

func kindOfType(t types.Type) Kind {
	switch u := under(t).(type) {
	case *types.Basic:
		switch {
		case u.Info()&types.IsBoolean != 0:
			return KBool
		case u.Info()&types.IsString != 0:
			return KStr
		case u.Info()&types.IsInteger != 0:
			return KInt
		case u.Info()&types.IsFloat != 0, u.Info()&types.IsComplex != 0:
			return KFloat
		case u.Kind() == types.UnsafePointer:
			return KInt
		case u.Kind() == types.UntypedNil:
			return KInt
		}
		return KInt
	case *types.Pointer, *types.Chan, *types.Map:
		return KInt
	case *types.Signature:
		return KFunc
	case *types.Struct:
		return KStruct
	case *types.Slice:
		return KSlice
	case *types.Interface:
		return KIface
	case *types.Array:
		return KArr
	case *types.Tuple:
		return KTuple
	case *types.TypeParam:
		return KIface
	}
	return KNone
}

func scalarSort(t types.Type) string {
	switch kindOfType(t) {
	case KInt, KFloat, KFunc:
		return sInt
	case KBool:
		return sBool
	case KStr:
		return sStr
	case KArr:
		a := under(t).(*types.Array)
		return arrSort(scalarSort(a.Elem()))
	}
	return sInt
}

type leaf struct {
	path string
	sort string
	typ  types.Type // Go type of the leaf (for range facts); nil for slice/iface parts
	part string     // "", "ref","off","len","cap","tag","dat"
}

var leavesCache = map[types.Type][]leaf{}

// leavesOf flattens a Go type into SMT-sorted leaves.
func leavesOf(t types.Type) []leaf {
	if l, ok := leavesCache[t]; ok {
		return l
	}
	var out []leaf
	switch kindOfType(t) {
	case KStruct:
		st := under(t).(*types.Struct)
		for i := 0; i < st.NumFields(); i++ {
			f := st.Field(i)
			for _, l := range leavesOf(f.Type()) {
				out = append(out, leaf{path: "." + f.Name() + l.path, sort: l.sort, typ: l.typ, part: l.part})
			}
		}
	case KSlice:
		for _, p := range []string{"ref", "off", "len", "cap"} {
			out = append(out, leaf{path: "^" + p, sort: sInt, part: p})
		}
	case KIface:
		out = append(out, leaf{path: "^tag", sort: sInt, part: "tag"}, leaf{path: "^dat", sort: sInt, part: "dat"})
	case KFunc:
		out = append(out, leaf{path: "", sort: sInt, typ: t})
	default:
		out = append(out, leaf{path: "", sort: scalarSort(t), typ: t})
	}
	leavesCache[t] = out
	return out
}

// flatten returns the leaf terms of v in leavesOf(v.T) order.
func flatten(v Val) []string {
	switch v.K {
	case KStruct:
		var out []string
		for _, f := range v.Fs {
			out = append(out, flatten(f)...)
		}
		return out
	case KSlice:
		return []string{v.Ref, v.Off, v.Len, v.Cap}
	case KIface:
		return []string{v.Tag, v.Dat}
	case KFunc:
		if v.S == "" {
			return []string{"0"}
		}
		return []string{v.S}
	default:
		return []string{v.S}
	}
}

// unflatten rebuilds a value of type t from leaf terms; returns remaining terms.
func unflatten(t types.Type, terms []string) (Val, []string) {
	switch kindOfType(t) {
	case KStruct:
		st := under(t).(*types.Struct)
		v := Val{K: KStruct, T: t}
		for i := 0; i < st.NumFields(); i++ {
			var f Val
			f, terms = unflatten(st.Field(i).Type(), terms)
			v.Fs = append(v.Fs, f)
		}
		return v, terms
	case KSlice:
		return Val{K: KSlice, T: t, Ref: terms[0], Off: terms[1], Len: terms[2], Cap: terms[3]}, terms[4:]
	case KIface:
		return Val{K: KIface, T: t, Tag: terms[0], Dat: terms[1]}, terms[2:]
	case KFunc:
		return Val{K: KFunc, T: t, S: terms[0]}, terms[1:]
	default:
		v := Val{K: kindOfType(t), T: t, S: terms[0]}
		if v.K == KInt {
			if lo, hi, ok := intRange(t); ok {
				v.Lo, v.Hi = lo, hi
			}
		}
		return v, terms[1:]
	}
}

func typeKey(t types.Type) string {
	return sanitize(types.TypeString(types.Unalias(t), func(p *types.Package) string { return p.Path() }))
}

// zeroVal is the Go zero value of type t.
func zeroVal(t types.Type) Val {
	ls := leavesOf(t)
	terms := make([]string, len(ls))
	for i, l := range ls {
		switch {
		case l.sort == sInt:
			terms[i] = "0"
		case l.sort == sBool:
			terms[i] = "false"
		case l.sort == sStr:
			terms[i] = "gs.empty"
		case strings.HasPrefix(l.sort, "(Array Int "):
			terms[i] = zeroArray(l.sort)
		default:
			terms[i] = "0"
		}
	}
	v, _ := unflatten(t, terms)
	return zeroBounds(v)
}

func zeroBounds(v Val) Val {
	switch v.K {
	case KInt:
		if v.S == "0" {
			v.Lo, v.Hi = big.NewInt(0), big.NewInt(0)
		}
	case KStruct:
		for i := range v.Fs {
			v.Fs[i] = zeroBounds(v.Fs[i])
		}
	}
	return v
}

func zeroArray(sort string) string {
	elem := strings.TrimSuffix(strings.TrimPrefix(sort, "(Array Int "), ")")
	var z string
	switch {
	case elem == sInt:
		z = "0"
	case elem == sBool:
		z = "false"
	case elem == sStr:
		z = "gs.empty"
	default:
		z = zeroArray(elem)
	}
	return "((as const " + sort + ") " + z + ")"
}

func fieldIndex(t types.Type, name string) (int, *types.Var) {
	st, ok := under(t).(*types.Struct)
	if !ok {
		return -1, nil
	}
	for i := 0; i < st.NumFields(); i++ {
		if st.Field(i).Name() == name {
			return i, st.Field(i)
		}
	}
	return -1, nil
}
