package main

import (
	"fmt"
	"go/ast"
	"go/token"
	"go/types"
	"os"
	"path/filepath"
	"sort"
	"strings"

	"golang.org/x/tools/go/packages"
)

type Obligation struct {
	Name   string // <pkg>.<Recv>.<Func>#<kind>:<ordinal>
	Kind   string
	Fn     string
	Pos    string
	Desc   string
	PC     *pcNode
	Goal   string
	Cover  bool // must be SAT (vacuity guard)
	AllAxioms bool
	Quick  bool // only a short attempt (reachability covers)
	Must   bool // cover-ret: a success return (nil error): must be reachable on its own
	Inputs []modelVar
	// results
	Status string // unsat / sat / unknown / timeout
	Solver string
	Secs   float64
	Model  map[string]string
	Raw    string
	File   string
}

type modelVar struct {
	Name string // Go-level name (param / field path)
	Term string
	Sort string
}

type Engine struct {
	fset      *token.FileSet
	pkgs      map[string]*packages.Package
	db        *SpecDB
	ctr       int
	hvCtr     int
	decl      map[string]string
	declOrder []string
	obls      []*Obligation
	funcDecls map[*types.Func]*declInfo
	unmod     map[string]bool // unmodelled calls
	assumed   map[string]bool // assumed contracts used
	notes     map[string]bool
	ordinals  map[string]int
	curTop    *FnCtx
	recording bool // dry run: obligations are discarded
	tagCtr    int
	typeTags  map[string]int
	tagTypes  map[int]types.Type
	usedUF    map[string]bool
	boxNotes  map[string]bool
	known     []KnownFinding
	specQuiet int
	ginitCache map[*types.Var]ast.Expr
	topFns    map[string]*FnCtx
	quickCache map[string]bool
	quickCtr  int
	litConsts map[string]bool // integer literals of the function under verification (for nl.mod/nl.div instances)
	leafTypes map[string]types.Type
	symAxioms map[string][]string
	trivial   int
	strLits   map[string]string
	strLitOrder []string
	floatLits map[string]string
	gnn       map[*types.Var]bool
	gsent     map[*types.Var]bool
	sentinels map[string][2]string // sentinel error globals read so far (tag, dat constants)
	boxedAll  map[types.Object]bool
	defs      map[string]string
	dynUF     map[string]*UFDecl
	qctr      int
	axiomTexts []axiomText
}

type declInfo struct {
	decl *ast.FuncDecl
	pkg  *packages.Package
}

// repoRoot: the tree under verification (/repo; VERIF_REPO overrides it for self-tests on scratch copies).
func repoRoot() string {
	if r := os.Getenv("VERIF_REPO"); r != "" {
		return strings.TrimSuffix(r, "/")
	}
	return "/repo"
}

type unsupported struct{ msg string }

func (e *Engine) unsupported(pos token.Pos, format string, a ...interface{}) {
	panic(unsupported{posStr(e.fset, pos) + ": " + fmt.Sprintf(format, a...)})
}

func newEngine() *Engine {
	return &Engine{
		pkgs: map[string]*packages.Package{}, decl: map[string]string{}, funcDecls: map[*types.Func]*declInfo{},
		unmod: map[string]bool{}, assumed: map[string]bool{}, notes: map[string]bool{}, ordinals: map[string]int{},
		typeTags: map[string]int{}, tagTypes: map[int]types.Type{}, usedUF: map[string]bool{}, boxNotes: map[string]bool{},
		strLits: map[string]string{}, floatLits: map[string]string{}, gnn: map[*types.Var]bool{}, boxedAll: map[types.Object]bool{},
		defs: map[string]string{}, dynUF: map[string]*UFDecl{}, leafTypes: map[string]types.Type{}, symAxioms: map[string][]string{}, topFns: map[string]*FnCtx{}, ginitCache: map[*types.Var]ast.Expr{}, quickCache: map[string]bool{}, litConsts: map[string]bool{},
	}
}

func (e *Engine) load(patterns []string) error {
	cfg := &packages.Config{
		Mode: packages.NeedName | packages.NeedFiles | packages.NeedCompiledGoFiles | packages.NeedImports |
			packages.NeedTypes | packages.NeedTypesSizes | packages.NeedSyntax | packages.NeedTypesInfo,
		Dir:        repoRoot(),
		BuildFlags: []string{"-tags=verif"},
		Env:        append(os.Environ(), "GOFLAGS=-mod=mod", "GOPROXY=off"),
	}
	pkgs, err := packages.Load(cfg, patterns...)
	if err != nil {
		return err
	}
	e.db = newSpecDB()
	for _, p := range pkgs {
		if len(p.Errors) > 0 {
			return fmt.Errorf("package %s: %v", p.PkgPath, p.Errors[0])
		}
		e.pkgs[p.PkgPath] = p
		e.fset = p.Fset
		for _, f := range p.Syntax {
			for _, d := range f.Decls {
				if fd, ok := d.(*ast.FuncDecl); ok && fd.Body != nil {
					if obj, ok := p.TypesInfo.Defs[fd.Name].(*types.Func); ok {
						e.funcDecls[obj] = &declInfo{fd, p}
					}
				}
			}
		}
		for _, gf := range p.GoFiles {
			if filepath.Base(gf) == "zz_contracts_verif.go" {
				if err := e.db.loadSpecFile(gf, p.PkgPath); err != nil {
					return err
				}
			}
		}
	}
	specs, _ := filepath.Glob("/verif/specs/*.spec")
	sort.Strings(specs)
	for _, sp := range specs {
		if err := e.db.loadSpecFile(sp, ""); err != nil {
			return err
		}
	}
	return nil
}

// funcKey: "Recv.Name" or "Name".
func funcKey(fd *ast.FuncDecl) string {
	if fd.Recv != nil && len(fd.Recv.List) == 1 {
		t := fd.Recv.List[0].Type
		if st, ok := t.(*ast.StarExpr); ok {
			t = st.X
		}
		if ix, ok := t.(*ast.IndexExpr); ok {
			t = ix.X
		}
		if id, ok := t.(*ast.Ident); ok {
			return id.Name + "." + fd.Name.Name
		}
	}
	return fd.Name.Name
}

func objKey(f *types.Func) string {
	sig := f.Type().(*types.Signature)
	if r := sig.Recv(); r != nil {
		t := r.Type()
		if p, ok := t.(*types.Pointer); ok {
			t = p.Elem()
		}
		if n, ok := types.Unalias(t).(*types.Named); ok {
			return n.Obj().Name() + "." + f.Name()
		}
	}
	return f.Name()
}

// externKey: "pkg/path.Func" or "pkg/path.Recv.Func"
func externKey(f *types.Func) string {
	pk := ""
	if f.Pkg() != nil {
		pk = f.Pkg().Path()
	}
	return pk + "." + objKey(f)
}

func (e *Engine) contractFor(f *types.Func) *Contract {
	if f == nil {
		return nil
	}
	f = f.Origin()
	if f.Pkg() != nil {
		if c, ok := e.db.Contracts[f.Pkg().Path()+"::"+objKey(f)]; ok {
			return c
		}
	}
	if c, ok := e.db.Contracts[externKey(f)]; ok {
		return c
	}
	if _, loaded := e.funcDecls[f]; !loaded && f.Pkg() != nil && e.db.CodecPkgs[f.Pkg().Path()] {
		// generated TL (de)serialisers: a method writes only its receiver and the buffer it is given
		c := &Contract{Key: externKey(f), Extern: true, Trusted: true, NoPanic: true, HasMod: true, Loops: map[string][]*SpecExpr{}, Opts: map[string]string{}}
		sig := f.Type().(*types.Signature)
		if sig.Recv() != nil {
			if _, isPtr := sig.Recv().Type().(*types.Pointer); isPtr {
				if m, err := parseSpecExpr("recv.__allfields", "generated-codec", 0); err == nil {
					c.Modifies = append(c.Modifies, m)
				}
			}
		}
		for i := 0; i < sig.Params().Len(); i++ {
			p := sig.Params().At(i)
			if pt, ok := p.Type().(*types.Pointer); ok && p.Name() != "" {
				if n, ok := pt.Elem().(*types.Named); ok && n.Obj().Name() == "Buffer" && n.Obj().Pkg() != nil && n.Obj().Pkg().Path() == "github.com/gotd/td/bin" {
					if m, err := parseSpecExpr(p.Name()+".Buf", "generated-codec", 0); err == nil {
						c.Modifies = append(c.Modifies, m)
					}
				}
			}
		}
		e.db.Contracts[externKey(f)] = c
		return c
	}
	if f.Pkg() != nil && e.db.PurePkgs[f.Pkg().Path()] {
		c := &Contract{Key: externKey(f), Extern: true, Pure: true, Trusted: true, NoPanic: true, Loops: map[string][]*SpecExpr{}, Opts: map[string]string{}}
		e.db.Contracts[externKey(f)] = c
		return c
	}
	return nil
}

func (e *Engine) note(s string) { e.notes[s] = true }

func (e *Engine) ordinal(key string) int {
	e.ordinals[key]++
	return e.ordinals[key]
}

// typeTag gives each dynamic type a positive integer tag.
func (e *Engine) typeTag(t types.Type) int {
	k := typeKey(t)
	if n, ok := e.typeTags[k]; ok {
		return n
	}
	e.tagCtr++
	e.typeTags[k] = e.tagCtr
	e.tagTypes[e.tagCtr] = t
	return e.tagCtr
}

// FnCtx is one function activation (top-level or inlined).
type FnCtx struct {
	eng      *Engine
	pkg      *packages.Package
	decl     *ast.FuncDecl
	lit      *ast.FuncLit
	body     *ast.BlockStmt
	ftype    *ast.FuncType
	key      string
	name     string // qualified display name
	contract *Contract
	sig      *types.Signature
	loops    map[ast.Stmt]string
	boxed    map[types.Object]bool
	depth    int
	top      bool
	entry    *State
	results  []*types.Var
	recv     *types.Var
	noOvf    bool
	parent   *FnCtx
	specVars map[string]Val // params by name for contract evaluation of this activation
	retOrd   map[*ast.ReturnStmt]int
	obj      *types.Func
	slicedArr map[types.Object]bool
	litOwner *FnCtx
	inputs   []modelVar
	lockEntry *State
	privBoxed map[types.Object]bool // address-taken locals out of reach of unknown code (lazily computed)
	replayInputs []replayInput
	gotoLoops map[*ast.LabeledStmt]*ast.ForStmt
}

func (f *FnCtx) info() *types.Info { return f.pkg.TypesInfo }

func shortPkg(p string) string {
	p = strings.TrimPrefix(p, "github.com/gotd/td/")
	return strings.ReplaceAll(p, "/", ".")
}

// numberLoops assigns ordinals (source order) to loops, skipping func literals.
func numberLoops(body ast.Node) (map[ast.Stmt]string, map[*ast.ReturnStmt]int) {
	loops := map[ast.Stmt]string{}
	rets := map[*ast.ReturnStmt]int{}
	n, r := 0, 0
	var labels = map[ast.Stmt]string{}
	ast.Inspect(body, func(nd ast.Node) bool {
		switch x := nd.(type) {
		case *ast.FuncLit:
			if nd != body {
				return false
			}
		case *ast.LabeledStmt:
			labels[x.Stmt] = x.Label.Name
		case *ast.ForStmt:
			n++
			loops[x] = itoa(n)
		case *ast.RangeStmt:
			n++
			loops[x] = itoa(n)
		case *ast.ReturnStmt:
			r++
			rets[x] = r
		}
		return true
	})
	for st, l := range labels {
		if _, ok := loops[st]; ok {
			loops[st] = loops[st] + "|" + l
		}
	}
	return loops, rets
}

// findBoxed: locals whose address is taken explicitly (&x, &x.f...).
func findBoxed(info *types.Info, body ast.Node) map[types.Object]bool {
	boxed := map[types.Object]bool{}
	var root func(e ast.Expr) types.Object
	root = func(e ast.Expr) types.Object {
		switch x := e.(type) {
		case *ast.Ident:
			if v, ok := info.Uses[x].(*types.Var); ok && !v.IsField() {
				return v
			}
		case *ast.ParenExpr:
			return root(x.X)
		case *ast.SelectorExpr:
			// only when x.X is a struct value (not pointer)
			if t := info.TypeOf(x.X); t != nil {
				if _, isPtr := under(t).(*types.Pointer); !isPtr {
					return root(x.X)
				}
			}
		case *ast.IndexExpr:
			if t := info.TypeOf(x.X); t != nil {
				if _, isArr := under(t).(*types.Array); isArr {
					return root(x.X)
				}
			}
		}
		return nil
	}
	ast.Inspect(body, func(nd ast.Node) bool {
		if u, ok := nd.(*ast.UnaryExpr); ok && u.Op == token.AND {
			if _, isLit := u.X.(*ast.CompositeLit); !isLit {
				if o := root(u.X); o != nil {
					boxed[o] = true
				}
			}
		}
		return true
	})
	return boxed
}
