package main

// SMT term construction helpers. Terms are plain strings in SMT-LIB2 syntax;
// a few constructors fold constants so that obligations stay readable.

import (
	"fmt"
	"go/types"
	"math/big"
	"strings"
)

const (
	sInt  = "Int"
	sBool = "Bool"
	sStr  = "Str"
	sAI   = "(Array Int Int)"
	sAB   = "(Array Int Bool)"
)

func arrSort(elem string) string { return "(Array Int " + elem + ")" }

func isNumLit(s string) (*big.Int, bool) {
	if s == "" {
		return nil, false
	}
	if strings.HasPrefix(s, "(- ") && strings.HasSuffix(s, ")") {
		inner := s[3 : len(s)-1]
		if n, ok := isNumLit(inner); ok && n.Sign() >= 0 && !strings.HasPrefix(inner, "(") {
			return new(big.Int).Neg(n), true
		}
		return nil, false
	}
	for _, c := range s {
		if c < '0' || c > '9' {
			return nil, false
		}
	}
	n, ok := new(big.Int).SetString(s, 10)
	return n, ok
}

func num(n *big.Int) string {
	if n.Sign() < 0 {
		return "(- " + new(big.Int).Neg(n).String() + ")"
	}
	return n.String()
}

func numI(n int64) string { return num(big.NewInt(n)) }

func pow2(k uint) *big.Int { return new(big.Int).Lsh(big.NewInt(1), k) }

func app(op string, args ...string) string {
	return "(" + op + " " + strings.Join(args, " ") + ")"
}

func mkAnd(xs ...string) string {
	var out []string
	for _, x := range xs {
		if x == "true" || x == "" {
			continue
		}
		if x == "false" {
			return "false"
		}
		out = append(out, x)
	}
	switch len(out) {
	case 0:
		return "true"
	case 1:
		return out[0]
	}
	return app("and", out...)
}

func mkOr(xs ...string) string {
	var out []string
	for _, x := range xs {
		if x == "false" || x == "" {
			continue
		}
		if x == "true" {
			return "true"
		}
		out = append(out, x)
	}
	switch len(out) {
	case 0:
		return "false"
	case 1:
		return out[0]
	}
	return app("or", out...)
}

func mkNot(x string) string {
	switch x {
	case "true":
		return "false"
	case "false":
		return "true"
	}
	if strings.HasPrefix(x, "(not ") && balanced(x[5:len(x)-1]) {
		return x[5 : len(x)-1]
	}
	return app("not", x)
}

func balanced(s string) bool {
	d := 0
	for _, c := range s {
		if c == '(' {
			d++
		} else if c == ')' {
			d--
			if d < 0 {
				return false
			}
		}
	}
	return d == 0
}

func mkImp(a, b string) string {
	if a == "true" {
		return b
	}
	if a == "false" || b == "true" {
		return "true"
	}
	return app("=>", a, b)
}

func mkIte(c, a, b string) string {
	if c == "true" {
		return a
	}
	if c == "false" {
		return b
	}
	if a == b {
		return a
	}
	return app("ite", c, a, b)
}

func mkEq(a, b string) string {
	if a == b {
		return "true"
	}
	if x, ok := isNumLit(a); ok {
		if y, ok := isNumLit(b); ok {
			if x.Cmp(y) == 0 {
				return "true"
			}
			return "false"
		}
	}
	return app("=", a, b)
}

func mkAdd(a, b string) string {
	x, ok1 := isNumLit(a)
	y, ok2 := isNumLit(b)
	if ok1 && ok2 {
		return num(new(big.Int).Add(x, y))
	}
	if ok1 && x.Sign() == 0 {
		return b
	}
	if ok2 && y.Sign() == 0 {
		return a
	}
	return app("+", a, b)
}

func mkSub(a, b string) string {
	x, ok1 := isNumLit(a)
	y, ok2 := isNumLit(b)
	if ok1 && ok2 {
		return num(new(big.Int).Sub(x, y))
	}
	if ok2 && y.Sign() == 0 {
		return a
	}
	return app("-", a, b)
}

func mkMul(a, b string) string {
	x, ok1 := isNumLit(a)
	y, ok2 := isNumLit(b)
	if ok1 && ok2 {
		return num(new(big.Int).Mul(x, y))
	}
	if ok1 && x.Cmp(big.NewInt(1)) == 0 {
		return b
	}
	if ok2 && y.Cmp(big.NewInt(1)) == 0 {
		return a
	}
	return app("*", a, b)
}

func mkNeg(a string) string {
	if x, ok := isNumLit(a); ok {
		return num(new(big.Int).Neg(x))
	}
	return app("-", a)
}

func mkCmp(op, a, b string) string {
	x, ok1 := isNumLit(a)
	y, ok2 := isNumLit(b)
	if ok1 && ok2 {
		c := x.Cmp(y)
		var r bool
		switch op {
		case "<":
			r = c < 0
		case "<=":
			r = c <= 0
		case ">":
			r = c > 0
		case ">=":
			r = c >= 0
		}
		if r {
			return "true"
		}
		return "false"
	}
	return app(op, a, b)
}

// floor div/mod by a positive literal (SMT semantics == floor for positive divisor)
func mkDiv(a, b string) string {
	x, ok1 := isNumLit(a)
	y, ok2 := isNumLit(b)
	if ok1 && ok2 && y.Sign() > 0 {
		q, m := new(big.Int).DivMod(x, y, new(big.Int))
		_ = m
		return num(q)
	}
	if !ok2 && !nonlinearOK {
		// division by a non-constant: uninterpreted (keeps obligations out of nonlinear arithmetic);
		// only range facts are known about the result
		return app("nl.div", a, b)
	}
	return app("div", a, b)
}

// nonlinearOK: use the solver's nonlinear div/mod for variable divisors (set per run by option).
var nonlinearOK = false

func mkMod(a, b string) string {
	x, ok1 := isNumLit(a)
	y, ok2 := isNumLit(b)
	if ok1 && ok2 && y.Sign() > 0 {
		_, m := new(big.Int).DivMod(x, y, new(big.Int))
		return num(m)
	}
	if !ok2 && !nonlinearOK {
		return app("nl.mod", a, b)
	}
	return app("mod", a, b)
}

func mkSel(a, i string) string { return app("select", a, i) }
func mkSto(a, i, v string) string {
	return app("store", a, i, v)
}

func sf(format string, a ...interface{}) string { return fmt.Sprintf(format, a...) }

// sanitize turns an arbitrary Go-ish name into an SMT simple symbol part.
func sanitize(s string) string {
	var b strings.Builder
	for _, c := range s {
		switch {
		case c >= 'a' && c <= 'z', c >= 'A' && c <= 'Z', c >= '0' && c <= '9', c == '_', c == '.', c == '$', c == '@', c == '!', c == '^':
			b.WriteRune(c)
		case c == '/':
			b.WriteByte('.')
		case c == '*':
			b.WriteString("ptr.")
		case c == '[':
			b.WriteString("_L")
		case c == ']':
			b.WriteString("R_")
		default:
			b.WriteByte('_')
		}
	}
	return b.String()
}

var arrEqCtr int

// arrEq: Go equality of two arrays of length n held as SMT arrays: elements 0..n-1 agree (whatever
// the SMT arrays hold outside that range is not part of the Go value).
func arrEq(a, b string, n int64) string {
	if a == b {
		return "true"
	}
	if n <= 8 {
		var cs []string
		for i := int64(0); i < n; i++ {
			cs = append(cs, mkEq(mkSel(a, itoa(int(i))), mkSel(b, itoa(int(i)))))
		}
		return mkAnd(cs...)
	}
	arrEqCtr++
	i := "i!ae" + itoa(arrEqCtr)
	return sf("(forall ((%s Int)) (=> (and (<= 0 %s) (< %s %d)) (= (select %s %s) (select %s %s))))", i, i, i, n, a, i, b, i)
}

func arrLenOf(t types.Type) (int64, bool) {
	if t == nil {
		return 0, false
	}
	if au, ok := under(t).(*types.Array); ok {
		return au.Len(), true
	}
	return 0, false
}

func isErrorType(t types.Type) bool {
	if t == nil {
		return false
	}
	return types.Identical(t, types.Universe.Lookup("error").Type())
}
