package main

// replay: turn a solver model into a Go test against the real code (see replay_gen.go).
func (e *Engine) replay(prop string, o *Obligation, seed int64) (string, bool) {
	return writeReplayText(prop, o, "model found; replay generator not available for this input shape"), false
}
