package main

// Replay and witness search: the executable form of a contract is run against the REAL function
// (in-package test injected with `go test -overlay`, nothing is written to the repository).
// Inputs: the solver's model (when there is one) followed by pseudo-random inputs (VERIF_SEED).
// A candidate counts only if the real function panics or violates an executable postcondition.

import (
	_ "embed"
	"encoding/json"
	"fmt"
	"go/ast"
	"go/types"
	"os"
	"os/exec"
	"path/filepath"
	"sort"
	"strings"
	"time"
)

//go:embed replay_helper.go.txt
var replayHelper string

type tree struct {
	Kind   string           `json:"k"`
	V      string           `json:"v,omitempty"`
	Elems  []*tree          `json:"e,omitempty"`
	Fields map[string]*tree `json:"f,omitempty"`
	Cap    int              `json:"c,omitempty"`
}

// modelView resolves SMT terms to model values, asking the solver in batches.
type modelView struct {
	eng   *Engine
	o     *Obligation
	vals  map[string]string
	need  map[string]bool
	fails int
}

func (m *modelView) get(term string) (string, bool) {
	if n, ok := isNumLit(term); ok {
		return n.String(), true
	}
	if term == "true" || term == "false" {
		return term, true
	}
	if v, ok := m.vals[term]; ok {
		return v, true
	}
	m.need[term] = true
	return "", false
}

func normVal(s string) string {
	s = strings.TrimSpace(s)
	if strings.HasPrefix(s, "(- ") && strings.HasSuffix(s, ")") {
		return "-" + strings.TrimSpace(s[3:len(s)-1])
	}
	return s
}

// refresh asks the solver for the needed terms, pinning everything already known.
func (m *modelView) refresh() bool {
	if len(m.need) == 0 {
		return false
	}
	var terms []string
	for t := range m.need {
		terms = append(terms, t)
	}
	sort.Strings(terms)
	var pins []string
	var ks []string
	for k := range m.vals {
		ks = append(ks, k)
	}
	sort.Strings(ks)
	for _, k := range ks {
		v := m.vals[k]
		if v == "true" || v == "false" {
			if v == "true" {
				pins = append(pins, k)
			} else {
				pins = append(pins, mkNot(k))
			}
			continue
		}
		if strings.HasPrefix(v, "-") {
			v = "(- " + v[1:] + ")"
		}
		pins = append(pins, mkEq(k, v))
	}
	txt := m.eng.smtText(m.o, pins, terms)
	file := strings.TrimSuffix(m.o.File, ".smt2") + ".model.smt2"
	if m.o.File == "" {
		file = filepath.Join(os.TempDir(), "govc-model.smt2")
	}
	os.WriteFile(file, []byte(txt), 0o644)
	r := race(file, 10*time.Second)
	m.need = map[string]bool{}
	if r.status != "sat" {
		m.fails++
		return false
	}
	for k, v := range parseValues(r.out) {
		v = normVal(v)
		if _, ok := isNumLit(strings.TrimPrefix(v, "-")); ok || v == "true" || v == "false" {
			m.vals[k] = v
		}
	}
	return true
}

// treeOf builds the input description of value v (entry-state symbolic value) of type t.
func (m *modelView) treeOf(s *State, v Val, t types.Type, depth int) *tree {
	if depth > 4 {
		return nil
	}
	switch v.K {
	case KInt:
		switch u := under(t).(type) {
		case *types.Pointer:
			p, ok := m.get(v.S)
			if !ok {
				return nil
			}
			if p == "0" {
				return &tree{Kind: "nil"}
			}
			inner := s.loadPtr(u.Elem(), v.S)
			return &tree{Kind: "ptr", Elems: []*tree{m.treeOf(s, inner, u.Elem(), depth+1)}}
		case *types.Map, *types.Chan:
			return &tree{Kind: "nil"}
		}
		x, ok := m.get(v.S)
		if !ok {
			return nil
		}
		return &tree{Kind: "int", V: x}
	case KBool:
		x, ok := m.get(v.S)
		if !ok {
			return nil
		}
		return &tree{Kind: "bool", V: x}
	case KStr:
		if v.S == "gs.empty" {
			return &tree{Kind: "str"}
		}
		m.eng.usedUF["gs.len"] = true
		ln, ok := m.get(app("gs.len", v.S))
		if !ok {
			return nil
		}
		n := atoiSafe(ln)
		if n > 256 {
			return nil
		}
		tr := &tree{Kind: "str"}
		for i := 0; i < n; i++ {
			b, ok := m.get(app("gs.at", v.S, numI(int64(i))))
			if !ok {
				b = "97"
			}
			tr.Elems = append(tr.Elems, &tree{Kind: "int", V: b})
		}
		return tr
	case KSlice:
		ref, ok1 := m.get(v.Ref)
		ln, ok2 := m.get(v.Len)
		cp, ok3 := m.get(v.Cap)
		_, ok4 := m.get(v.Off)
		if !ok1 || !ok2 || !ok3 || !ok4 {
			return nil
		}
		if ref == "0" {
			return &tree{Kind: "nil"}
		}
		n := atoiSafe(ln)
		if n > 4096 {
			return &tree{Kind: "toolarge"}
		}
		et := under(t).(*types.Slice).Elem()
		tr := &tree{Kind: "slice", Cap: atoiSafe(cp)}
		if tr.Cap > n+1024 {
			tr.Cap = n + 1024
		}
		for i := 0; i < n; i++ {
			ev := s.loadElem(et, v.Ref, mkAdd(v.Off, numI(int64(i))))
			tr.Elems = append(tr.Elems, m.treeOf(s, ev, et, depth+1))
		}
		return tr
	case KArr:
		au := under(t).(*types.Array)
		if au.Len() > 4096 {
			return nil
		}
		tr := &tree{Kind: "arr"}
		for i := int64(0); i < au.Len(); i++ {
			x, ok := m.get(mkSel(v.S, numI(i)))
			if !ok {
				x = "0"
			}
			tr.Elems = append(tr.Elems, &tree{Kind: "int", V: x})
		}
		return tr
	case KStruct:
		st := under(t).(*types.Struct)
		tr := &tree{Kind: "struct", Fields: map[string]*tree{}}
		for i := 0; i < st.NumFields(); i++ {
			f := st.Field(i)
			if f.Name() == "_" {
				continue
			}
			if sub := m.treeOf(s, v.Fs[i], f.Type(), depth+1); sub != nil {
				tr.Fields[f.Name()] = sub
			}
		}
		return tr
	case KIface:
		tag, ok := m.get(v.Tag)
		if !ok {
			return nil
		}
		if tag == "0" {
			return &tree{Kind: "nil"}
		}
		// values of the pure interface methods observed in the obligation
		tr := &tree{Kind: "iface", Fields: map[string]*tree{}}
		dat, _ := m.get(v.Dat)
		for name := range m.eng.dynUF {
			if !strings.HasPrefix(name, "m$") {
				continue
			}
			meth := strings.TrimSuffix(strings.TrimPrefix(name, "m$"), "$")
			term := app(name, v.Tag, v.Dat, numI(int64(s.hv)))
			if x, ok := m.get(term); ok {
				tr.Fields[meth] = &tree{Kind: "int", V: x}
			}
		}
		_ = dat
		return tr
	}
	return nil
}

func atoiSafe(s string) int {
	n := 0
	fmt.Sscanf(s, "%d", &n)
	return n
}

// replayInfo describes the function under replay.
type replayInfo struct {
	fn     *FnCtx
	inputs []replayInput
}

type replayInput struct {
	name string
	val  Val
	typ  types.Type
}

// genReplay writes the generated test and runs it. It returns the replay file, whether the real
// code failed, and a short summary.
func (e *Engine) genReplay(prop string, f *FnCtx, o *Obligation, model map[string]*tree, seed int64, iters int) (string, bool, string) {
	if f == nil || f.decl == nil || f.sig == nil {
		return "", false, "function is not replayable (func literal)"
	}
	imports := map[string]string{} // path -> name
	bad := ""
	qual := func(p *types.Package) string {
		if p == f.pkg.Types {
			return ""
		}
		imports[p.Path()] = p.Name()
		return p.Name()
	}
	tstr := func(t types.Type) string {
		s := types.TypeString(t, qual)
		// unexported types of other packages cannot be named
		return s
	}
	checkNameable := func(t types.Type) {
		var walk func(t types.Type, d int)
		walk = func(t types.Type, d int) {
			if d > 6 {
				return
			}
			switch u := types.Unalias(t).(type) {
			case *types.Named:
				if u.Obj().Pkg() != nil && u.Obj().Pkg() != f.pkg.Types && !u.Obj().Exported() {
					bad = "unexported foreign type " + u.String()
				}
			case *types.Pointer:
				walk(u.Elem(), d+1)
			case *types.Slice:
				walk(u.Elem(), d+1)
			case *types.Array:
				walk(u.Elem(), d+1)
			case *types.Map:
				walk(u.Key(), d+1)
				walk(u.Elem(), d+1)
			case *types.Signature:
				for i := 0; i < u.Params().Len(); i++ {
					walk(u.Params().At(i).Type(), d+1)
				}
				for i := 0; i < u.Results().Len(); i++ {
					walk(u.Results().At(i).Type(), d+1)
				}
			case *types.TypeParam:
				bad = "type parameter"
			}
		}
		walk(t, 0)
	}
	var b strings.Builder
	sig := f.sig
	ct := f.contract
	var decls, fills, envs, args []string
	recvName := ""
	if sig.Recv() != nil {
		rt := sig.Recv().Type()
		checkNameable(rt)
		recvName = "recv"
		if f.decl.Recv != nil && len(f.decl.Recv.List[0].Names) == 1 {
			recvName = f.decl.Recv.List[0].Names[0].Name
		}
		if pt, ok := rt.(*types.Pointer); ok && !ct.Nilable {
			decls = append(decls, fmt.Sprintf("\t\tgovcRecv := new(%s)", tstr(pt.Elem())))
			fills = append(fills, fmt.Sprintf("\t\t\tif tr, ok := trees[%q]; ok && tr.Kind == \"ptr\" && len(tr.Elems) == 1 { govcSetTree(reflect.ValueOf(govcRecv).Elem(), (*govcTree)(tr.Elems[0])) }", recvName))
			fills = append(fills, "\t\t\t_ = 0")
			envs = append(envs, fmt.Sprintf("%q: reflect.ValueOf(&govcRecv).Elem()", recvName))
			decls = append(decls, "\t\tgovcFillRecv := func() { govcFill(rng, reflect.ValueOf(govcRecv).Elem(), 3) }")
		} else {
			decls = append(decls, fmt.Sprintf("\t\tvar govcRecv %s", tstr(rt)))
			fills = append(fills, fmt.Sprintf("\t\t\tgovcSetTree(reflect.ValueOf(&govcRecv).Elem(), (*govcTree)(trees[%q]))", recvName))
			envs = append(envs, fmt.Sprintf("%q: reflect.ValueOf(&govcRecv).Elem()", recvName))
			decls = append(decls, "\t\tgovcFillRecv := func() { govcFill(rng, reflect.ValueOf(&govcRecv).Elem(), 3) }")
		}
	}
	for i := 0; i < sig.Params().Len(); i++ {
		p := sig.Params().At(i)
		checkNameable(p.Type())
		vn := fmt.Sprintf("govcP%d", i)
		decls = append(decls, fmt.Sprintf("\t\tvar %s %s", vn, tstr(p.Type())))
		name := p.Name()
		if name == "" || name == "_" {
			name = vn
		}
		fills = append(fills, fmt.Sprintf("\t\t\tgovcSetTree(reflect.ValueOf(&%s).Elem(), (*govcTree)(trees[%q]))", vn, name))
		envs = append(envs, fmt.Sprintf("%q: reflect.ValueOf(&%s).Elem()", name, vn))
		if sig.Variadic() && i == sig.Params().Len()-1 {
			args = append(args, vn+"...")
		} else {
			args = append(args, vn)
		}
	}
	if bad != "" {
		return "", false, "not replayable: " + bad
	}
	var rdecl, rnames, renv []string
	for i := 0; i < sig.Results().Len(); i++ {
		r := sig.Results().At(i)
		checkNameable(r.Type())
		vn := fmt.Sprintf("govcR%d", i)
		rdecl = append(rdecl, fmt.Sprintf("\t\tvar %s %s", vn, tstr(r.Type())))
		rnames = append(rnames, vn)
		if r.Name() != "" && r.Name() != "_" {
			renv = append(renv, fmt.Sprintf("\t\tenv.vars[%q] = reflect.ValueOf(&%s).Elem()", r.Name(), vn))
		}
		if i < len(ct.Results) {
			renv = append(renv, fmt.Sprintf("\t\tenv.vars[%q] = reflect.ValueOf(&%s).Elem()", ct.Results[i], vn))
		}
		if sig.Results().Len() == 1 {
			renv = append(renv, fmt.Sprintf("\t\tenv.vars[\"result\"] = reflect.ValueOf(&%s).Elem()", vn))
		}
	}
	if bad != "" {
		return "", false, "not replayable: " + bad
	}
	call := f.decl.Name.Name + "(" + strings.Join(args, ", ") + ")"
	if sig.Recv() != nil {
		call = "govcRecv." + call
	}
	if len(rnames) > 0 {
		call = strings.Join(rnames, ", ") + " = " + call
	}
	// spec sources (after ==> rewriting)
	var reqs, enss []string
	for _, r := range ct.Requires {
		reqs = append(reqs, rewriteImp(r.Src))
	}
	for _, en := range ct.Ensures {
		enss = append(enss, rewriteImp(en.Src))
	}
	// inputs inside a recorded known-finding class are skipped: they are reported as KNOWN-FINDING, not again
	for i := range e.known {
		kf := &e.known[i]
		if kf.Status == "known" && kf.Func == f.name && kf.Class != "" {
			reqs = append(reqs, "!("+rewriteImp(kf.Class)+")")
		}
	}
	macros := map[string]govcMacroJSON{}
	for name, m := range e.db.Macros {
		macros[name] = govcMacroJSON{Params: m.Params, Body: rewriteImp(m.Body.Src)}
	}
	// constants of the package mentioned in specs
	consts := map[string]string{}
	allSrc := strings.Join(append(append([]string{}, reqs...), enss...), " ")
	for _, m := range macros {
		allSrc += " " + m.Body
	}
	scope := f.pkg.Types.Scope()
	for _, n := range scope.Names() {
		if c, ok := scope.Lookup(n).(*types.Const); ok && strings.Contains(allSrc, n) {
			if isIntegerType(c.Type()) || c.Type().Underlying().String() == "untyped int" {
				consts[n] = c.Val().ExactString()
			}
		}
	}
	hints := ""
	if hd, err := os.ReadFile(filepath.Join("/verif/replay_hints", strings.ReplaceAll(shortPkg(f.pkg.PkgPath), ".", "_")+".go.txt")); err == nil {
		hints = string(hd)
		for _, l := range strings.Split(hints, "\n") {
			if strings.HasPrefix(l, "//import ") {
				fs := strings.Fields(strings.TrimPrefix(l, "//import "))
				if len(fs) == 2 {
					imports[strings.Trim(fs[1], "\"")] = fs[0]
				}
			}
		}
	}
	modelJSON, _ := json.Marshal(model)
	helper := strings.Replace(replayHelper, "package PKGNAME", "package "+f.pkg.Types.Name(), 1)

	fmt.Fprintf(&b, "// Code generated by GoVC: replay of obligation %s (property %s).\n", o.Name, prop)
	fmt.Fprintf(&b, "// what: %s\n// at: %s\n", o.Desc, o.Pos)
	fmt.Fprintf(&b, "package %s\n\nimport (\n\t\"encoding/json\"\n\t\"fmt\"\n\t\"math/big\"\n\t\"math/rand\"\n\t\"reflect\"\n\t\"testing\"\n", f.pkg.Types.Name())
	var ips []string
	for p := range imports {
		ips = append(ips, p)
	}
	sort.Strings(ips)
	for _, p := range ips {
		fmt.Fprintf(&b, "\t%s %q\n", imports[p], p)
	}
	b.WriteString(")\n\nvar _ = big.NewInt\nvar _ = fmt.Sprint\n\n")
	b.WriteString("var govcConsts = map[string]interface{}{\n")
	var cns []string
	for n := range consts {
		cns = append(cns, n)
	}
	sort.Strings(cns)
	for _, n := range cns {
		fmt.Fprintf(&b, "\t%q: func() *big.Int { n, _ := new(big.Int).SetString(%q, 10); return n }(),\n", n, consts[n])
	}
	b.WriteString("}\n\n")
	if hints == "" {
		b.WriteString("var govcIfaceCands = map[string][]func(*rand.Rand) interface{}{}\nvar govcIfaceFromModel = map[string]func(*govcTree) interface{}{}\n\n")
	} else {
		b.WriteString(hints + "\n")
	}
	if !strings.Contains(hints, "govcStringPool") {
		b.WriteString("var govcStringPool []string\n\n")
	}
	fmt.Fprintf(&b, "func TestGovcReplay(t *testing.T) {\n")
	fmt.Fprintf(&b, "\tvar spec govcSpec\n\tjson.Unmarshal([]byte(%q), &spec)\n", mustJSON(map[string]interface{}{"Requires": reqs, "Ensures": enss, "Macros": macros}))
	fmt.Fprintf(&b, "\tvar trees map[string]*govcTree\n\tjson.Unmarshal([]byte(%q), &trees)\n", string(modelJSON))
	fmt.Fprintf(&b, "\trng := rand.New(rand.NewSource(%d))\n\ttried, unsupported := 0, map[string]bool{}\n", seed)
	fmt.Fprintf(&b, "\tfor it := 0; it < %d; it++ {\n", iters)
	b.WriteString(strings.Join(decls, "\n") + "\n")
	b.WriteString("\t\tif it == 0 && len(trees) > 0 {\n" + strings.Join(fills, "\n") + "\n\t\t} else {\n")
	if sig.Recv() != nil {
		b.WriteString("\t\t\tgovcFillRecv()\n")
	}
	for i := 0; i < sig.Params().Len(); i++ {
		fmt.Fprintf(&b, "\t\t\tgovcFill(rng, reflect.ValueOf(&govcP%d).Elem(), 3)\n", i)
	}
	b.WriteString("\t\t}\n")
	if sig.Recv() != nil {
		b.WriteString("\t\t_ = govcFillRecv\n")
	}
	fmt.Fprintf(&b, "\t\tenv := &govcEnv{vars: map[string]reflect.Value{%s}, macros: spec.Macros}\n", strings.Join(envs, ", "))
	b.WriteString(`		ok := true
		for _, r := range spec.Requires {
			res, uns := govcEvalBool(r, env)
			if uns != "" {
				unsupported["requires: "+uns] = true
				ok = false
			} else if !res {
				ok = false
			}
		}
		if !ok {
			continue
		}
		tried++
		inputs := ""
		for k, v := range env.vars {
			inputs += fmt.Sprintf("\n    %s = %s", k, govcShow(v))
		}
		old := &govcEnv{vars: map[string]reflect.Value{}, macros: spec.Macros}
		seen := map[uintptr]reflect.Value{}
		for k, v := range env.vars {
			c := reflect.New(v.Type()).Elem()
			c.Set(govcDeepCopy(v, seen))
			old.vars[k] = c
		}
		env.old = old
`)
	b.WriteString(strings.Join(rdecl, "\n") + "\n")
	b.WriteString("\t\tvar pan interface{}\n\t\tfunc() {\n\t\t\tdefer func() { pan = recover() }()\n\t\t\t" + call + "\n\t\t}()\n")
	b.WriteString("\t\tif pan != nil {\n\t\t\tt.Fatalf(\"GOVC-WITNESS iteration=%d: the real function panicked: %v\\n  inputs:%s\", it, pan, inputs)\n\t\t}\n")
	b.WriteString(strings.Join(renv, "\n") + "\n")
	for i := range rnames {
		fmt.Fprintf(&b, "\t\t_ = govcR%d\n", i)
	}
	b.WriteString(`		for _, en := range spec.Ensures {
			res, uns := govcEvalBool(en, env)
			if uns != "" {
				unsupported["ensures: "+uns] = true
				continue
			}
			if !res {
				outs := ""
				for k, v := range env.vars {
					outs += fmt.Sprintf("\n    %s = %s", k, govcShow(v))
				}
				t.Fatalf("GOVC-WITNESS iteration=%d: the real function violates the postcondition\n  %s\n  inputs (before the call):%s\n  state after the call:%s", it, en, inputs, outs)
			}
		}
	}
	for u := range unsupported {
		t.Logf("GOVC-NOTE not evaluated: %s", u)
	}
	t.Logf("GOVC-TRIED %d inputs satisfying the precondition", tried)
}
`)
	// write and run
	dir := filepath.Join(replayDir(), "work")
	os.MkdirAll(dir, 0o755)
	base := fmt.Sprintf("%s_%s", prop, sanitize(o.Name))
	testFile := filepath.Join(replayDir(), base+"_replay_test.go.txt")
	os.WriteFile(testFile, []byte(b.String()), 0o644)
	helperFile := filepath.Join(dir, base+"_helper_test.go")
	os.WriteFile(helperFile, []byte(helper), 0o644)
	pkgDir := filepath.Join(repoRoot(), strings.TrimPrefix(f.pkg.PkgPath, "github.com/gotd/td/"))
	if f.pkg.PkgPath == "github.com/gotd/td" {
		pkgDir = repoRoot()
	}
	ov := map[string]map[string]string{"Replace": {
		filepath.Join(pkgDir, "zz_govc_replay_test.go"): testFile,
		filepath.Join(pkgDir, "zz_govc_helper_test.go"): helperFile,
	}}
	ovFile := filepath.Join(dir, base+"_overlay.json")
	os.WriteFile(ovFile, []byte(mustJSON(ov)), 0o644)
	cmd := exec.Command("bash", "-c", fmt.Sprintf("ulimit -v 6000000; cd %s && go test -mod=mod -overlay %s -vet=off -count=1 -timeout 90s -run '^TestGovcReplay$' ./%s 2>&1 | tail -60",
		repoRoot(), ovFile, strings.TrimPrefix(strings.TrimPrefix(pkgDir, repoRoot()), "/")))
	cmd.Env = append(os.Environ(), "GOFLAGS=-mod=mod", "GOPROXY=off")
	out, _ := cmd.CombinedOutput()
	os.Remove(helperFile)
	os.Remove(ovFile)
	res := string(out)
	reproduced := strings.Contains(res, "GOVC-WITNESS")
	summary := "real function passed all executable checks"
	if reproduced {
		summary = "REPRODUCED on the real code"
	} else if strings.Contains(res, "[build failed]") || strings.Contains(res, "cannot ") && !strings.Contains(res, "GOVC-TRIED") {
		summary = "replay test did not build"
	}
	// the replay file: header + command + output + generated test
	var rp strings.Builder
	fmt.Fprintf(&rp, "// GoVC replay for property %s\n// obligation: %s (%s)\n// at: %s\n// what: %s\n// solver status: %s (%s)\n// replay result: %s\n", prop, o.Name, o.Kind, o.Pos, o.Desc, o.Status, o.Solver, summary)
	fmt.Fprintf(&rp, "// to re-run: copy this file to %s/zz_govc_replay_test.go together with /verif/govc/replay_helper.go.txt (package clause adjusted) and run\n//   go test -vet=off -run TestGovcReplay ./%s\n", pkgDir, strings.TrimPrefix(strings.TrimPrefix(pkgDir, repoRoot()), "/"))
	rp.WriteString("/* output of the run:\n" + strings.ReplaceAll(res, "*/", "* /") + "\n*/\n\n")
	rp.WriteString(b.String())
	os.WriteFile(testFile, []byte(rp.String()), 0o644)
	return testFile, reproduced, summary
}

type govcMacroJSON struct {
	Params []string
	Body   string
}

func mustJSON(v interface{}) string {
	b, _ := json.Marshal(v)
	return string(b)
}

// replay: turn a solver model into inputs, then run the generated test (model input first, then
// random inputs) against the real code.
func (e *Engine) replay(prop string, o *Obligation, seed int64) (string, bool) {
	f := e.topFns[o.Fn]
	if f == nil {
		return writeReplayText(prop, o, "no replay: not a function obligation"), false
	}
	var model map[string]*tree
	if o.Status == "sat" && f.entry != nil {
		mv := &modelView{eng: e, o: o, vals: map[string]string{}, need: map[string]bool{}}
		for k, v := range o.Model {
			mv.vals[k] = normVal(v)
		}
		for round := 0; round < 6; round++ {
			model = map[string]*tree{}
			for _, in := range f.replayInputs {
				if t := mv.treeOf(f.entry, in.val, in.typ, 0); t != nil {
					model[in.name] = t
				}
			}
			if !mv.refresh() {
				break
			}
		}
	}
	file, ok, summary := e.genReplay(prop, f, o, model, seed, 3000)
	if file == "" {
		return writeReplayText(prop, o, "model found; "+summary), false
	}
	_ = summary
	return file, ok
}

// witnessSearch runs the executable contract of a function on pseudo-random inputs (used when the
// verifier cannot speak about the function: out of subset, or unevaluable contract).
func (e *Engine) witnessSearch(prop string, f *FnCtx, seed int64) (string, bool, string) {
	o := &Obligation{Name: f.name + "#witness-search", Kind: "witness", Fn: f.name, Pos: posStr(e.fset, f.body.Pos()),
		Desc: "executable contract on pseudo-random inputs (function could not be verified deductively)", Status: "undecided"}
	return e.genReplay(prop, f, o, nil, seed, 20000)
}

var _ = ast.Inspect
