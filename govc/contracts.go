package main

// Contract files: structured //@ comments.  In /repo they live in
// <pkg>/zz_contracts_verif.go (build tag verif, comment-only); assumed
// contracts of the environment live in /verif/specs/*.spec.

import (
	"fmt"
	"go/ast"
	"go/parser"
	"os"
	"strings"
)

type SpecExpr struct {
	Src  string
	E    ast.Expr
	File string
	Line int
}

type Contract struct {
	Key      string // "Recv.Func", "func", "Recv.Func$1"; externs: "pkg/path.Func" or "pkg/path.Recv.Func"
	File     string
	Line     int
	Requires []*SpecExpr
	Ensures  []*SpecExpr
	Modifies []*SpecExpr
	HasMod   bool // a modifies clause was given (possibly "nothing")
	Loops    map[string][]*SpecExpr
	LoopMods map[string][]string
	Params   []string // externs / funcfields: parameter names
	Results  []string
	Extern   bool
	Pure     bool // no heap effects, result unconstrained unless ensures
	NoOvf    bool
	Nilable  bool // receiver may be nil
	MayAlias bool
	Trusted  bool // body not verified (assumed)
	NoPanic  bool // extern: never panics (default true)
	Ghosts   []string
	Opts     map[string]string
	Fresh    []string // result names that are freshly allocated
	Monitors []*monitorDecl
	CallSites []callSiteRule
}

type callSiteRule struct {
	callee string
	req    *SpecExpr
	ghost  string
	then   *SpecExpr
}

type SpecMacro struct {
	Name   string
	Params []string
	Body   *SpecExpr
}

type UFDecl struct {
	Name string
	Args []string
	Ret  string
}

type Axiom struct {
	Name string
	Body *SpecExpr
	Pkg  string
}

type Lemma struct {
	Name string
	Vars []string // "x Int"
	Body *SpecExpr
	Pkg  string
}

type IfaceMethod struct {
	Key  string // "pkg/path.Iface.Method"
	Pure bool
}

type SpecDB struct {
	Contracts map[string]*Contract // by pkgpath + "::" + key
	Macros    map[string]*SpecMacro
	UFs       map[string]*UFDecl
	UFOrder   []string
	Axioms    []*Axiom
	Lemmas    []*Lemma
	PureIface map[string]bool // "pkg/path.Iface.Method" or "*.Method"
	PurePkgs  map[string]bool
	CodecPkgs map[string]bool
	Immutable map[string]string // heap-array name prefix of an immutable field -> pkg.Type.field
	NonNil    map[string]bool   // pkg.Type.field: pointer field set to a non-nil value by every constructor, never reassigned
	Files     []string
	Assumes   int
}

func newSpecDB() *SpecDB {
	return &SpecDB{Contracts: map[string]*Contract{}, Macros: map[string]*SpecMacro{}, UFs: map[string]*UFDecl{}, PureIface: map[string]bool{}, PurePkgs: map[string]bool{}, CodecPkgs: map[string]bool{}, Immutable: map[string]string{}, NonNil: map[string]bool{}}
}

// rewriteImp turns the infix implication a ==> b (lowest precedence, right
// associative) into the call __imp(a, b) so that go/parser accepts it.
func rewriteImp(s string) string {
	// split at top-level commas
	var pieces []string
	depth, start := 0, 0
	inStr := false
	for i := 0; i < len(s); i++ {
		c := s[i]
		if inStr {
			if c == '\\' {
				i++
			} else if c == '"' {
				inStr = false
			}
			continue
		}
		switch c {
		case '"':
			inStr = true
		case '(', '[', '{':
			depth++
		case ')', ']', '}':
			depth--
		case ',':
			if depth == 0 {
				pieces = append(pieces, s[start:i])
				start = i + 1
			}
		}
	}
	pieces = append(pieces, s[start:])
	for pi, p := range pieces {
		// find first top-level ==>
		depth = 0
		idx := -1
		inStr = false
		for i := 0; i < len(p); i++ {
			c := p[i]
			if inStr {
				if c == '\\' {
					i++
				} else if c == '"' {
					inStr = false
				}
				continue
			}
			switch c {
			case '"':
				inStr = true
			case '(', '[', '{':
				depth++
			case ')', ']', '}':
				depth--
			case '=':
				if depth == 0 && strings.HasPrefix(p[i:], "==>") {
					idx = i
				}
			}
			if idx >= 0 {
				break
			}
		}
		if idx >= 0 {
			pieces[pi] = "__imp(" + rewriteImp(p[:idx]) + ", " + rewriteImp(p[idx+3:]) + ")"
			continue
		}
		// recurse into groups
		var b strings.Builder
		depth = 0
		gstart := -1
		inStr = false
		for i := 0; i < len(p); i++ {
			c := p[i]
			if inStr {
				if depth == 0 {
					b.WriteByte(c)
				}
				if c == '\\' && i+1 < len(p) {
					i++
					if depth == 0 {
						b.WriteByte(p[i])
					}
				} else if c == '"' {
					inStr = false
				}
				continue
			}
			switch c {
			case '"':
				inStr = true
				if depth == 0 {
					b.WriteByte(c)
				}
			case '(', '[', '{':
				if depth == 0 {
					b.WriteByte(c)
					gstart = i + 1
				}
				depth++
			case ')', ']', '}':
				depth--
				if depth == 0 {
					b.WriteString(rewriteImp(p[gstart:i]))
					b.WriteByte(c)
				}
			default:
				if depth == 0 {
					b.WriteByte(c)
				}
			}
		}
		pieces[pi] = b.String()
	}
	return strings.Join(pieces, ",")
}

func parseSpecExpr(src, file string, line int) (*SpecExpr, error) {
	rw := rewriteImp(src)
	e, err := parser.ParseExpr(rw)
	if err != nil {
		return nil, fmt.Errorf("%s:%d: spec parse error in %q: %v", file, line, src, err)
	}
	return &SpecExpr{Src: strings.TrimSpace(src), E: e, File: file, Line: line}, nil
}

var clauseKeywords = map[string]bool{
	"requires": true, "ensures": true, "modifies": true, "loop": true, "nooverflow": true,
	"nilable": true, "may_alias": true, "trusted": true, "pure": true, "ghost": true,
	"opt": true, "fresh": true, "params": true, "results": true, "maypanic": true,
	"guarded_by": true, "monitor": true, "callsite": true,
}

// loadSpecFile parses one file of //@ lines. pkgPath scopes the func keys.
func (db *SpecDB) loadSpecFile(path, pkgPath string) error {
	data, err := os.ReadFile(path)
	if err != nil {
		return err
	}
	db.Files = append(db.Files, path)
	type rawLine struct {
		text string
		line int
	}
	var lines []rawLine
	for i, l := range strings.Split(string(data), "\n") {
		t := strings.TrimSpace(l)
		if !strings.HasPrefix(t, "//@") {
			continue
		}
		body := strings.TrimPrefix(t, "//@")
		if strings.TrimSpace(body) == "" {
			continue
		}
		// comments inside contract lines
		if k := strings.Index(body, " // "); k >= 0 {
			body = body[:k]
		}
		lines = append(lines, rawLine{body, i + 1})
	}
	// join continuation lines: a line whose first word is not a keyword / directive continues the previous one
	directives := map[string]bool{"func": true, "extern": true, "spec": true, "uf": true, "axiom": true, "lemma": true, "iface": true, "end": true, "purefn": true, "purepkg": true, "codecpkg": true, "immutable": true, "nonnil": true}
	var joined []rawLine
	for _, l := range lines {
		w := firstWord(l.text)
		if directives[w] || clauseKeywords[w] {
			joined = append(joined, rawLine{strings.TrimSpace(l.text), l.line})
		} else if len(joined) > 0 {
			joined[len(joined)-1].text += " " + strings.TrimSpace(l.text)
		} else {
			return fmt.Errorf("%s:%d: stray contract line %q", path, l.line, l.text)
		}
	}
	var cur *Contract
	for _, l := range joined {
		w := firstWord(l.text)
		rest := strings.TrimSpace(strings.TrimPrefix(l.text, w))
		if strings.Contains(l.text, "assume ") && w != "axiom" {
			db.Assumes++
		}
		switch w {
		case "func", "extern":
			c := &Contract{File: path, Line: l.line, Loops: map[string][]*SpecExpr{}, LoopMods: map[string][]string{}, Opts: map[string]string{}, NoPanic: true}
			key := rest
			if w == "extern" {
				c.Extern = true
				c.Trusted = true
				// extern pkg/path.Func(p1, p2) (r1, r2)
				if i := strings.Index(rest, "("); i >= 0 {
					key = strings.TrimSpace(rest[:i])
					sig := rest[i:]
					j := strings.Index(sig, ")")
					c.Params = splitNames(sig[1:j])
					tail := strings.TrimSpace(sig[j+1:])
					if strings.HasPrefix(tail, "(") {
						c.Results = splitNames(strings.Trim(tail, "()"))
					} else if tail != "" {
						c.Results = splitNames(tail)
					}
				}
				c.Key = key
				db.Contracts[key] = c
			} else {
				if i := strings.Index(rest, "("); i >= 0 {
					key = strings.TrimSpace(rest[:i])
					sig := rest[i:]
					j := strings.Index(sig, ")")
					c.Params = splitNames(sig[1:j])
					tail := strings.TrimSpace(sig[j+1:])
					if tail != "" {
						c.Results = splitNames(strings.Trim(tail, "()"))
					}
				}
				c.Key = key
				db.Contracts[pkgPath+"::"+key] = c
			}
			cur = c
		case "end":
			cur = nil
		case "spec":
			// spec name(a, b) = expr
			i := strings.Index(rest, "(")
			j := strings.Index(rest, ")")
			k := strings.Index(rest, "=")
			if i < 0 || j < i || k < j {
				return fmt.Errorf("%s:%d: bad spec macro", path, l.line)
			}
			body, err := parseSpecExpr(rest[k+1:], path, l.line)
			if err != nil {
				return err
			}
			name := strings.TrimSpace(rest[:i])
			db.Macros[name] = &SpecMacro{Name: name, Params: splitNames(rest[i+1 : j]), Body: body}
		case "uf":
			// uf name(Int, Int) Int
			i := strings.Index(rest, "(")
			j := strings.LastIndex(rest, ")")
			name := strings.TrimSpace(rest[:i])
			// the arg list may contain parenthesised sorts
			args := splitSorts(rest[i+1 : matchParen(rest, i)])
			ret := strings.TrimSpace(rest[matchParen(rest, i)+1:])
			_ = j
			db.UFs[name] = &UFDecl{Name: name, Args: args, Ret: ret}
			db.UFOrder = append(db.UFOrder, name)
		case "axiom", "lemma":
			k := strings.Index(rest, ":")
			if k < 0 {
				return fmt.Errorf("%s:%d: %s needs 'name: expr'", path, l.line, w)
			}
			body, err := parseSpecExpr(rest[k+1:], path, l.line)
			if err != nil {
				return err
			}
			if w == "axiom" {
				db.Axioms = append(db.Axioms, &Axiom{Name: strings.TrimSpace(rest[:k]), Body: body, Pkg: pkgPath})
			} else {
				db.Lemmas = append(db.Lemmas, &Lemma{Name: strings.TrimSpace(rest[:k]), Body: body, Pkg: pkgPath})
			}
		case "iface":
			// iface pkg/path.Iface.Method pure
			f := strings.Fields(rest)
			if len(f) >= 1 {
				db.PureIface[f[0]] = true
			}
		case "codecpkg":
			// generated (de)serialiser packages: methods modify only their receiver and the bin.Buffer argument
			for _, f := range strings.Fields(rest) {
				db.CodecPkgs[f] = true
			}
		case "immutable":
			// immutable Type.field ...: fields written only while the object is built (checked
			// syntactically over the loaded packages); havocs by unknown code leave them alone
			for _, f := range strings.Fields(rest) {
				if i := strings.Index(f, "."); i > 0 && pkgPath != "" {
					db.Immutable["H$"+sanitize(pkgPath+"."+f[:i])+"$."+f[i+1:]] = pkgPath + "." + f
				}
			}
		case "nonnil":
			// nonnil Type.field ...: a pointer field that every composite literal of Type sets to the
			// result of a constructor call (New*/new*) or to &literal, that is never assigned afterwards
			// and whose type is never created zero-valued (all checked syntactically over the loaded
			// packages); a load of the field yields a non-nil pointer
			for _, f := range strings.Fields(rest) {
				if i := strings.Index(f, "."); i > 0 && pkgPath != "" {
					db.Immutable["H$"+sanitize(pkgPath+"."+f[:i])+"$."+f[i+1:]] = pkgPath + "." + f
					db.NonNil[pkgPath+"."+f] = true
				}
			}
		case "purepkg":
			// every function of these packages is effect-free for the code under verification
			for _, f := range strings.Fields(rest) {
				db.PurePkgs[f] = true
			}
		case "purefn":
			for _, f := range strings.Fields(rest) {
				db.Contracts[f] = &Contract{Key: f, Extern: true, Pure: true, Trusted: true, NoPanic: true, File: path, Line: l.line, Loops: map[string][]*SpecExpr{}}
			}
		default:
			if cur == nil {
				return fmt.Errorf("%s:%d: clause %q outside a func block", path, l.line, w)
			}
			switch w {
			case "requires", "ensures":
				e, err := parseSpecExpr(rest, path, l.line)
				if err != nil {
					return err
				}
				if w == "requires" {
					cur.Requires = append(cur.Requires, e)
				} else {
					cur.Ensures = append(cur.Ensures, e)
				}
			case "modifies":
				cur.HasMod = true
				if rest != "nothing" {
					for _, p := range splitTop(rest) {
						p = strings.TrimSpace(p)
						p = strings.ReplaceAll(p, "[*cap]", "[__allcap]")
						p = strings.ReplaceAll(p, "[*]", "[__all]")
						e, err := parseSpecExpr(p, path, l.line)
						if err != nil {
							return err
						}
						cur.Modifies = append(cur.Modifies, e)
					}
				}
			case "loop":
				// loop <key> invariant <expr>
				f := strings.Fields(rest)
				if len(f) < 3 || f[1] != "invariant" {
					return fmt.Errorf("%s:%d: loop clause must be 'loop <key> invariant <expr>'", path, l.line)
				}
				k := strings.Index(rest, "invariant")
				e, err := parseSpecExpr(rest[k+len("invariant"):], path, l.line)
				if err != nil {
					return err
				}
				cur.Loops[f[0]] = append(cur.Loops[f[0]], e)
			case "nooverflow":
				cur.NoOvf = true
			case "nilable":
				cur.Nilable = true
			case "may_alias":
				cur.MayAlias = true
			case "trusted":
				cur.Trusted = true
			case "pure":
				cur.Pure = true
			case "maypanic":
				cur.NoPanic = false
			case "ghost":
				cur.Ghosts = append(cur.Ghosts, rest)
			case "fresh":
				cur.Fresh = append(cur.Fresh, splitNames(rest)...)
			case "opt":
				f := strings.SplitN(rest, "=", 2)
				if len(f) == 2 {
					cur.Opts[strings.TrimSpace(f[0])] = strings.TrimSpace(f[1])
				} else {
					cur.Opts[strings.TrimSpace(rest)] = "1"
				}
			case "callsite":
				// callsite <callee name> requires <expr>: every call of that function/method (by name) made
				// while executing this function, directly or in inlined callees, must satisfy expr
				k := strings.Index(rest, " requires ")
				if k < 0 {
					return fmt.Errorf("%s:%d: callsite needs '<callee> requires <expr>'", path, l.line)
				}
				body := rest[k+len(" requires "):]
				rule := callSiteRule{callee: strings.TrimSpace(rest[:k])}
				// optional effect on a ghost variable: "... then <ghost> = <expr>" (res0, res1.. name the call's results)
				if ti := strings.Index(body, " then "); ti >= 0 {
					eff := body[ti+len(" then "):]
					body = body[:ti]
					eq := strings.Index(eff, "=")
					if eq < 0 {
						return fmt.Errorf("%s:%d: callsite effect must be '<ghost> = <expr>'", path, l.line)
					}
					rule.ghost = strings.TrimSpace(eff[:eq])
					te, err := parseSpecExpr(eff[eq+1:], path, l.line)
					if err != nil {
						return err
					}
					rule.then = te
				}
				e, err := parseSpecExpr(body, path, l.line)
				if err != nil {
					return err
				}
				rule.req = e
				cur.CallSites = append(cur.CallSites, rule)
			case "guarded_by", "monitor":
				k := strings.Index(rest, ":")
				if k < 0 {
					return fmt.Errorf("%s:%d: %s needs '<lock>: ...'", path, l.line, w)
				}
				lock := strings.TrimSpace(rest[:k])
				mon := cur.monitorFor(lock)
				if mon == nil {
					mon = &monitorDecl{lock: lock}
					cur.Monitors = append(cur.Monitors, mon)
				}
				if w == "guarded_by" {
					for _, p := range splitTop(rest[k+1:]) {
						p = strings.ReplaceAll(strings.TrimSpace(p), "[*cap]", "[__allcap]")
						p = strings.ReplaceAll(p, "[*]", "[__all]")
						e, err := parseSpecExpr(p, path, l.line)
						if err != nil {
							return err
						}
						mon.guarded = append(mon.guarded, e)
					}
				} else {
					e, err := parseSpecExpr(rest[k+1:], path, l.line)
					if err != nil {
						return err
					}
					mon.invs = append(mon.invs, e)
				}
			case "params":
				cur.Params = splitNames(rest)
			case "results":
				cur.Results = splitNames(rest)
			}
		}
	}
	return nil
}

func matchParen(s string, i int) int {
	d := 0
	for k := i; k < len(s); k++ {
		if s[k] == '(' {
			d++
		} else if s[k] == ')' {
			d--
			if d == 0 {
				return k
			}
		}
	}
	return len(s) - 1
}

func splitSorts(s string) []string {
	var out []string
	for _, p := range splitTop(s) {
		p = strings.TrimSpace(p)
		if p != "" {
			out = append(out, p)
		}
	}
	return out
}

func splitTop(s string) []string {
	var out []string
	d, st := 0, 0
	for i := 0; i < len(s); i++ {
		switch s[i] {
		case '(', '[':
			d++
		case ')', ']':
			d--
		case ',':
			if d == 0 {
				out = append(out, s[st:i])
				st = i + 1
			}
		}
	}
	out = append(out, s[st:])
	return out
}

func firstWord(s string) string {
	f := strings.Fields(s)
	if len(f) == 0 {
		return ""
	}
	return f[0]
}

func splitNames(s string) []string {
	var out []string
	for _, p := range strings.Split(s, ",") {
		p = strings.TrimSpace(p)
		if p == "" {
			continue
		}
		// allow "name type": keep the name
		out = append(out, strings.Fields(p)[0])
	}
	return out
}
