package main

// Evaluation of specification expressions (Go expression syntax plus
// old / forall / exists / ==> / spec functions) over symbolic states.
// Spec integers are mathematical; nothing here generates obligations.

import (
	"go/ast"
	"go/constant"
	"go/token"
	"go/types"
	"math/big"
	"strconv"
	"strings"
)

type SpecEnv struct {
	x     *Exec
	s     *State         // state in which heap reads happen
	old   *State         // state for old(...)
	vars  map[string]Val // parameters, results, bound variables, macro arguments
	pos   token.Pos      // position for scope lookup of locals (NoPos: none)
	scope *types.Scope
	pkg   *types.Package
	info  *types.Info
	src   *SpecExpr
	freshBase string // allocation pointer that isfresh() compares against ("" = function entry)
}

func (en *SpecEnv) fail(format string, a ...interface{}) {
	where := ""
	if en.src != nil {
		where = en.src.File + ":" + itoa(en.src.Line) + ": in spec `" + en.src.Src + "`: "
	}
	panic(unsupported{where + sf(format, a...)})
}

func (en *SpecEnv) with(name string, v Val) *SpecEnv {
	c := *en
	c.vars = make(map[string]Val, len(en.vars)+1)
	for k, vv := range en.vars {
		c.vars[k] = vv
	}
	c.vars[name] = v
	return &c
}

func (en *SpecEnv) inState(s *State) *SpecEnv {
	c := *en
	c.s = s
	return &c
}

// evalBool evaluates a spec expression expected to be boolean.
func (en *SpecEnv) evalBool(e *SpecExpr) string {
	c := *en
	c.src = e
	// spec evaluation adds nothing to path conditions (terms may mention bound variables)
	en.x.eng.specQuiet++
	defer func() { en.x.eng.specQuiet-- }()
	v := c.eval(e.E)
	if v.K != KBool {
		c.fail("expected boolean, got %v", v.K)
	}
	return v.S
}

func mathInt(s string) Val { return Val{K: KInt, S: s} }

func (en *SpecEnv) eval(e ast.Expr) Val {
	switch e := e.(type) {
	case *ast.ParenExpr:
		return en.eval(e.X)
	case *ast.BasicLit:
		switch e.Kind {
		case token.INT:
			n, ok := new(big.Int).SetString(e.Value, 0)
			if !ok {
				en.fail("bad int literal %s", e.Value)
			}
			if n.Cmp(big1) > 0 && n.BitLen() < 64 {
				en.x.eng.litConsts[n.String()] = true
			}
			return constInt(nil, n)
		case token.CHAR:
			r, _, _, err := strconv.UnquoteChar(e.Value[1:len(e.Value)-1], '\'')
			if err != nil {
				en.fail("bad char literal")
			}
			return constInt(nil, big.NewInt(int64(r)))
		case token.STRING:
			sv, err := strconv.Unquote(e.Value)
			if err != nil {
				en.fail("bad string literal")
			}
			return Val{K: KStr, T: types.Typ[types.String], S: en.x.eng.strConst(sv)}
		case token.FLOAT:
			// 1e9 style integer constants
			cv := constant.MakeFromLiteral(e.Value, token.FLOAT, 0)
			if iv := constant.ToInt(cv); iv.Kind() == constant.Int {
				n, _ := new(big.Int).SetString(iv.ExactString(), 10)
				return constInt(nil, n)
			}
		}
		en.fail("literal %s", e.Value)
	case *ast.Ident:
		return en.evalIdent(e)
	case *ast.UnaryExpr:
		v := en.eval(e.X)
		switch e.Op {
		case token.NOT:
			return boolVal(mkNot(v.S))
		case token.SUB:
			return mathInt(mkNeg(v.S))
		case token.ADD:
			return v
		}
		en.fail("unary %s", e.Op)
	case *ast.BinaryExpr:
		return en.evalBinary(e)
	case *ast.CallExpr:
		return en.evalCall(e)
	case *ast.SelectorExpr:
		return en.evalSelector(e)
	case *ast.IndexExpr:
		return en.evalIndex(e)
	case *ast.SliceExpr:
		return en.evalSlice(e)
	case *ast.StarExpr:
		p := en.eval(e.X)
		pt, ok := under(p.T).(*types.Pointer)
		if !ok {
			en.fail("deref of non-pointer")
		}
		return en.hs(p).loadPtrQuiet(pt.Elem(), p.S)
	}
	en.fail("unsupported spec expression %s", exprString(e))
	return Val{}
}

// hs returns the state whose heap a value reads from (values produced under old() carry it).
func (en *SpecEnv) hs(v Val) *State {
	if v.HS != nil {
		return v.HS
	}
	return en.s
}

func (en *SpecEnv) evalIdent(id *ast.Ident) Val {
	switch id.Name {
	case "true":
		return boolVal("true")
	case "false":
		return boolVal("false")
	case "nil":
		return Val{K: KInt, S: "0", Lo: big0, Hi: big0}
	}
	if v, ok := en.vars[id.Name]; ok {
		return v
	}
	if g, ok := en.s.ghost[id.Name]; ok {
		return g
	}
	// local variable / parameter visible at the position
	if en.scope != nil {
		if _, obj := en.scope.LookupParent(id.Name, en.pos); obj != nil {
			return en.objVal(obj, id.Name)
		}
	}
	if en.pkg != nil {
		if obj := en.pkg.Scope().Lookup(id.Name); obj != nil {
			return en.objVal(obj, id.Name)
		}
	}
	if obj := types.Universe.Lookup(id.Name); obj != nil {
		if c, ok := obj.(*types.Const); ok {
			return en.x.constVal(c.Type(), c.Val())
		}
	}
	if en.pkg != nil {
		// a package name (contracts evaluated at a call site have no file scope)
		for _, imp := range en.pkg.Imports() {
			if imp.Name() == id.Name {
				return Val{K: KNone, S: "pkg:" + imp.Path()}
			}
		}
	}
	en.fail("unknown identifier %s", id.Name)
	return Val{}
}

func (en *SpecEnv) objVal(obj types.Object, name string) Val {
	switch o := obj.(type) {
	case *types.Const:
		v := en.x.constVal(o.Type(), o.Val())
		return v
	case *types.Var:
		st := en.s
		if v, ok := st.env[o]; ok {
			if en.x.isBoxed(o) {
				return st.loadPtrQuiet(o.Type(), v.S)
			}
			if v.K == KArr && v.Ref != "" {
				au := under(o.Type()).(*types.Array)
				v.S = st.backing(au.Elem(), v.Ref)[0]
			}
			return v
		}
		if o.Parent() != nil && o.Pkg() != nil && o.Parent() == o.Pkg().Scope() {
			return en.x.readGlobal(st, o)
		}
		if en.x.fn != nil && en.x.fn.lit != nil && en.x.fn.top && o.Pos() < en.x.fn.lit.Pos() {
			// a function literal verified on its own: a variable of the enclosing function it captures
			return en.x.readVar(st, o, en.pos)
		}
		en.fail("variable %s has no value here", name)
	case *types.PkgName:
		return Val{K: KNone, S: "pkg:" + o.Imported().Path()}
	case *types.Func:
		return Val{K: KFunc, T: o.Type(), Fn: &FuncVal{Obj: o}}
	case *types.TypeName:
		return Val{K: KNone, S: "type", T: o.Type()}
	}
	en.fail("identifier %s is not a value", name)
	return Val{}
}

func (en *SpecEnv) evalBinary(e *ast.BinaryExpr) Val {
	l := en.eval(e.X)
	r := en.eval(e.Y)
	switch e.Op {
	case token.LAND:
		return boolVal(mkAnd(l.S, r.S))
	case token.LOR:
		return boolVal(mkOr(l.S, r.S))
	case token.EQL, token.NEQ:
		eq := en.equal(l, r)
		if e.Op == token.NEQ {
			eq = mkNot(eq)
		}
		return boolVal(eq)
	case token.LSS, token.LEQ, token.GTR, token.GEQ:
		return boolVal(mkCmp(e.Op.String(), l.S, r.S))
	case token.ADD:
		if l.K == KSeq || r.K == KSeq {
			return en.seqCat(en.toSeq(l), en.toSeq(r))
		}
		return mathInt(mkAdd(l.S, r.S))
	case token.SUB:
		return mathInt(mkSub(l.S, r.S))
	case token.MUL:
		return mathInt(mkMul(l.S, r.S))
	case token.QUO:
		// spec division is floor division (operands are expected non-negative / positive)
		return mathInt(mkDiv(l.S, r.S))
	case token.REM:
		return mathInt(mkMod(l.S, r.S))
	case token.SHL:
		if n, ok := isNumLit(r.S); ok && n.IsInt64() {
			return mathInt(mkMul(l.S, num(pow2(uint(n.Int64())))))
		}
	case token.SHR:
		if n, ok := isNumLit(r.S); ok && n.IsInt64() {
			return mathInt(mkDiv(l.S, num(pow2(uint(n.Int64())))))
		}
	}
	en.fail("binary operator %s", e.Op)
	return Val{}
}

func (en *SpecEnv) equal(l, r Val) string {
	// nil comparisons
	if r.K == KInt && r.S == "0" {
		switch l.K {
		case KSlice:
			return mkEq(l.Ref, "0")
		case KIface:
			return mkEq(l.Tag, "0")
		case KFunc:
			if l.Fn != nil {
				return "false"
			}
			return mkEq(l.S, "0")
		}
	}
	if l.K == KInt && l.S == "0" && (r.K == KSlice || r.K == KIface || r.K == KFunc) {
		return en.equal(r, l)
	}
	if l.K == KSeq || r.K == KSeq {
		a, b := en.toSeq(l), en.toSeq(r)
		return mkAnd(mkEq(a.Len, b.Len), mkEq(a.S, b.S))
	}
	if l.K == KArr {
		if n, ok := arrLenOf(l.T); ok {
			return arrEq(l.S, r.S, n)
		}
		if n, ok := arrLenOf(r.T); ok {
			return arrEq(l.S, r.S, n)
		}
	}
	switch l.K {
	case KInt, KBool, KStr, KFloat, KArr:
		return mkEq(l.S, r.S)
	case KIface:
		if r.K != KIface {
			en.fail("comparison of interface with non-interface in spec")
		}
		return mkAnd(mkEq(l.Tag, r.Tag), mkEq(l.Dat, r.Dat))
	case KSlice:
		// slice header equality (identity)
		return mkAnd(mkEq(l.Ref, r.Ref), mkEq(l.Off, r.Off), mkEq(l.Len, r.Len))
	case KStruct, KTuple:
		var cs []string
		for i := range l.Fs {
			cs = append(cs, en.equal(l.Fs[i], r.Fs[i]))
		}
		return mkAnd(cs...)
	case KFunc:
		// function values read from the heap are identified by a symbolic code pointer
		if r.K == KFunc && l.Fn == nil && r.Fn == nil && l.S != "" && r.S != "" {
			return mkEq(l.S, r.S)
		}
	}
	en.fail("equality on %v", l.K)
	return ""
}

// loadPtrQuiet reads without adding facts to the path condition (spec evaluation is side-effect free
// on the path condition except for typing facts, which are sound to add).
func (s *State) loadPtrQuiet(t types.Type, p string) Val {
	return s.loadPtr(t, p)
}

func (en *SpecEnv) evalSelector(e *ast.SelectorExpr) Val {
	base := en.eval(e.X)
	if base.K == KNone && strings.HasPrefix(base.S, "pkg:") {
		path := strings.TrimPrefix(base.S, "pkg:")
		var pk *types.Package
		if p, ok := en.x.eng.pkgs[path]; ok {
			pk = p.Types
		} else if en.pkg != nil {
			for _, imp := range en.pkg.Imports() {
				if imp.Path() == path {
					pk = imp
				}
			}
		}
		if pk == nil {
			en.fail("package %s not loaded", path)
		}
		obj := pk.Scope().Lookup(e.Sel.Name)
		if obj == nil {
			en.fail("%s.%s not found", path, e.Sel.Name)
		}
		return en.objVal(obj, e.Sel.Name)
	}
	return en.field(base, e.Sel.Name)
}

// field selects a (possibly promoted) field, dereferencing pointers automatically.
func (en *SpecEnv) field(base Val, name string) Val {
	if base.T == nil {
		en.fail("selector .%s on untyped value", name)
	}
	obj, index, _ := types.LookupFieldOrMethod(base.T, true, nil, name)
	if obj == nil && en.pkg != nil {
		obj, index, _ = types.LookupFieldOrMethod(base.T, true, en.pkg, name)
	}
	if obj == nil {
		// unexported field of another package: search loaded packages
		for _, p := range en.x.eng.pkgs {
			if o, idx, _ := types.LookupFieldOrMethod(base.T, true, p.Types, name); o != nil {
				obj, index = o, idx
				break
			}
		}
	}
	fv, ok := obj.(*types.Var)
	if !ok || !fv.IsField() {
		en.fail("no field %s in %s", name, base.T)
	}
	cur := base
	t := base.T
	for _, idx := range index {
		if p, ok := under(t).(*types.Pointer); ok {
			st := under(p.Elem()).(*types.Struct)
			f := st.Field(idx)
			hs := en.hs(cur)
			nv := hs.loadField(p.Elem(), cur.S, "."+f.Name(), f.Type())
			nv.HS = cur.HS
			cur = nv
			t = f.Type()
			continue
		}
		st := under(t).(*types.Struct)
		f := st.Field(idx)
		hsv := cur.HS
		cur = cur.Fs[idx]
		if cur.HS == nil {
			cur.HS = hsv
		}
		t = f.Type()
	}
	return cur
}

func (en *SpecEnv) evalIndex(e *ast.IndexExpr) Val {
	b := en.eval(e.X)
	i := en.eval(e.Index)
	switch b.K {
	case KSlice:
		et := under(b.T).(*types.Slice).Elem()
		v := en.hs(b).loadElem(et, b.Ref, mkAdd(b.Off, i.S))
		v.HS = b.HS
		return v
	case KArr:
		au, _ := under(b.T).(*types.Array)
		v := Val{K: KInt, S: mkSel(b.S, i.S)}
		if au != nil {
			v.T = au.Elem()
			v.K = kindOfType(au.Elem())
		}
		return v
	case KSeq:
		return mathInt(mkSel(b.S, i.S))
	case KStr:
		en.x.eng.usedUF["gs.at"] = true
		return mathInt(app("gs.at", b.S, i.S))
	case KInt:
		if mt, ok := under(b.T).(*types.Map); ok {
			k := i
			v, _ := en.x.mapLoad(en.hs(b), b.T, b.S, Val{K: kindOfType(mt.Key()), T: mt.Key(), S: k.S})
			v.HS = b.HS
			return v
		}
	}
	en.fail("index on %v", b.K)
	return Val{}
}

func (en *SpecEnv) evalSlice(e *ast.SliceExpr) Val {
	b := en.eval(e.X)
	lo, hi := "0", ""
	if e.Low != nil {
		lo = en.eval(e.Low).S
	}
	if e.High != nil {
		hi = en.eval(e.High).S
	}
	switch b.K {
	case KSlice:
		if hi == "" {
			hi = b.Len
		}
		r := b
		r.Off = mkAdd(b.Off, lo)
		r.Len = mkSub(hi, lo)
		r.Cap = mkSub(b.Cap, lo)
		return r
	case KSeq:
		if hi == "" {
			hi = b.Len
		}
		return en.seqSub(b, lo, hi)
	case KArr:
		q := en.toSeq(b)
		if hi == "" {
			hi = q.Len
		}
		return en.seqSub(q, lo, hi)
	case KStr:
		if hi == "" {
			hi = en.x.strLen(b)
		}
		en.x.eng.usedUF["gs.sub"] = true
		return Val{K: KStr, T: b.T, S: app("gs.sub", b.S, lo, hi)}
	}
	en.fail("slice expression on %v", b.K)
	return Val{}
}

// ---- sequences (spec-level byte/int strings) -----------------------------------

// toSeq views a slice / array / string as a mathematical sequence (canonical array, length).
func (en *SpecEnv) toSeq(v Val) Val {
	switch v.K {
	case KSeq:
		return v
	case KSlice:
		et := under(v.T).(*types.Slice).Elem()
		arr := en.hs(v).backing(et, v.Ref)[0]
		en.x.eng.usedUF["sq.canon"] = true
		return Val{K: KSeq, S: app("sq.canon", arr, v.Off, v.Len), Len: v.Len}
	case KArr:
		au := under(v.T).(*types.Array)
		n := numI(au.Len())
		en.x.eng.usedUF["sq.canon"] = true
		return Val{K: KSeq, S: app("sq.canon", v.S, "0", n), Len: n}
	case KStr:
		en.x.eng.usedUF["sq.ofstr"] = true
		return Val{K: KSeq, S: app("sq.ofstr", v.S), Len: en.x.strLen(v)}
	}
	en.fail("cannot view %v as a sequence", v.K)
	return Val{}
}

func (en *SpecEnv) seqSub(q Val, lo, hi string) Val {
	en.x.eng.usedUF["sq.canon"] = true
	if lo == "0" && hi == q.Len {
		return q
	}
	return Val{K: KSeq, S: app("sq.canon", q.S, lo, mkSub(hi, lo)), Len: mkSub(hi, lo)}
}

func (en *SpecEnv) seqCat(a, b Val) Val {
	en.x.eng.usedUF["sq.cat"] = true
	return Val{K: KSeq, S: app("sq.cat", a.S, a.Len, b.S, b.Len), Len: mkAdd(a.Len, b.Len)}
}

// ---- calls: special forms, macros, UFs -------------------------------------------

func (en *SpecEnv) evalCall(c *ast.CallExpr) Val {
	// method-style pure interface calls: a.GetOffset()
	if sel, ok := c.Fun.(*ast.SelectorExpr); ok {
		if id, ok := sel.X.(*ast.Ident); !ok || !en.isPkgName(id.Name) {
			recv := en.eval(sel.X)
			return en.pureMethod(recv, sel.Sel.Name, c)
		}
	}
	name := ""
	switch f := c.Fun.(type) {
	case *ast.Ident:
		name = f.Name
	case *ast.SelectorExpr:
		name = exprString(f)
	default:
		en.fail("call of %s", exprString(c.Fun))
	}
	switch name {
	case "__imp":
		return boolVal(mkImp(en.eval(c.Args[0]).S, en.eval(c.Args[1]).S))
	case "old":
		if en.old == nil {
			en.fail("old() not available here")
		}
		o := *en
		o.s = en.old
		v := o.eval(c.Args[0])
		return markHS(v, en.old)
	case "forall", "exists":
		return en.quant(name, c)
	case "ite":
		cnd := en.eval(c.Args[0])
		a, b := en.eval(c.Args[1]), en.eval(c.Args[2])
		if a.K == KBool {
			return boolVal(mkIte(cnd.S, a.S, b.S))
		}
		return mathInt(mkIte(cnd.S, a.S, b.S))
	case "len":
		v := en.eval(c.Args[0])
		switch v.K {
		case KSlice, KSeq:
			return mathInt(v.Len)
		case KStr:
			return mathInt(en.x.strLen(v))
		case KArr:
			return mathInt(numI(under(v.T).(*types.Array).Len()))
		case KInt:
			if _, ok := under(v.T).(*types.Map); ok {
				return mathInt(en.x.mapLen(en.hs(v), v.T, v.S))
			}
		}
		en.fail("len of %v", v.K)
	case "cap":
		v := en.eval(c.Args[0])
		return mathInt(v.Cap)
	case "seq":
		return en.toSeq(en.eval(c.Args[0]))
	case "cat":
		acc := en.toSeq(en.eval(c.Args[0]))
		for _, a := range c.Args[1:] {
			acc = en.seqCat(acc, en.toSeq(en.eval(a)))
		}
		return acc
	case "sub":
		q := en.toSeq(en.eval(c.Args[0]))
		return en.seqSub(q, en.eval(c.Args[1]).S, en.eval(c.Args[2]).S)
	case "mkseq":
		return Val{K: KSeq, S: en.eval(c.Args[0]).S, Len: en.eval(c.Args[1]).S}
	case "isfresh":
		// isfresh(x): x is nil or was allocated by this function activation (not reachable by the caller before)
		v := en.eval(c.Args[0])
		r := v.S
		if v.K == KSlice {
			r = v.Ref
		} else if v.K == KIface {
			r = v.Dat
		}
		base := en.freshBase
		if base == "" {
			base = en.x.eng.declare("alloc@0", sInt)
		}
		return boolVal(mkOr(mkEq(r, "0"), mkCmp(">=", r, base)))
	case "isnil":
		v := en.eval(c.Args[0])
		return boolVal(en.equal(v, Val{K: KInt, S: "0"}))
	case "ref":
		// ref(s): identity of a slice's backing store / pointer value
		v := en.eval(c.Args[0])
		if v.K == KSlice {
			return mathInt(v.Ref)
		}
		if v.K == KIface {
			return mathInt(v.Dat)
		}
		return mathInt(v.S)
	case "closed":
		// closed(ch): the channel has been closed (tracked only in functions with opt chanstate)
		v := en.eval(c.Args[0])
		return boolVal(mkSel(en.hs(v).heapGet(chanClosedArr, arrSort(sBool)), v.S))
	case "iszero":
		// iszero(v): v equals the zero value of its Go type
		v := en.eval(c.Args[0])
		if v.T == nil {
			en.fail("iszero() needs a typed value")
		}
		return boolVal(en.equal(v, zeroVal(v.T)))
	case "dyntype":
		// dyntype(v): the dynamic type tag of an interface value (0 for nil)
		v := en.eval(c.Args[0])
		if v.K != KIface {
			en.fail("dyntype() needs an interface value")
		}
		return mathInt(v.Tag)
	case "off":
		return mathInt(en.eval(c.Args[0]).Off)
	case "at":
		// at(s, k): the element of s's backing store at absolute position k (off(s) <= k < off(s)+len(s)
		// is s[k-off(s)]); quantifying over absolute positions keeps index terms free of arithmetic
		b := en.eval(c.Args[0])
		if b.K != KSlice {
			en.fail("at() needs a slice")
		}
		k := en.eval(c.Args[1])
		et := under(b.T).(*types.Slice).Elem()
		v := en.hs(b).loadElem(et, b.Ref, k.S)
		v.HS = b.HS
		return v
	case "typeis":
		// typeis(v, pkg.Type) / typeis(v, *pkg.Type)
		v := en.eval(c.Args[0])
		t := en.typeExpr(c.Args[1])
		return boolVal(en.x.hasType(en.s, v, t))
	case "as":
		// as(v, *pkg.Type): the concrete value inside interface v
		v := en.eval(c.Args[0])
		t := en.typeExpr(c.Args[1])
		r := en.x.unbox(en.hs(v), v, t)
		r.HS = v.HS
		return r
	case "mod":
		return mathInt(mkMod(en.eval(c.Args[0]).S, en.eval(c.Args[1]).S))
	case "div":
		return mathInt(mkDiv(en.eval(c.Args[0]).S, en.eval(c.Args[1]).S))
	case "min", "max":
		a, b := en.eval(c.Args[0]), en.eval(c.Args[1])
		op := "<="
		if name == "max" {
			op = ">="
		}
		return mathInt(mkIte(mkCmp(op, a.S, b.S), a.S, b.S))
	case "has":
		// has(m, k): map membership
		m := en.eval(c.Args[0])
		mt := under(m.T).(*types.Map)
		k := en.eval(c.Args[1])
		_, ok := en.x.mapLoad(en.hs(m), m.T, m.S, Val{K: kindOfType(mt.Key()), T: mt.Key(), S: k.S})
		return boolVal(ok)
	case "ctxdone":
		// ctxdone(ctx): this path received from ctx.Done()
		return boolVal(en.s.ctxDoneTerm(exprString(c.Args[0])))
	case "held":
		return boolVal(boolStr(en.s.held[exprString(c.Args[0])]))
	}
	// integer conversions
	if t := en.basicType(name); t != nil && len(c.Args) == 1 {
		v := en.eval(c.Args[0])
		if v.K == KInt && isIntegerType(t) {
			if fits(v.Lo, v.Hi, t) {
				v.T = t
				return v
			}
			lo, hi, _ := intRange(t)
			return Val{K: KInt, T: t, S: wrapTerm(v.S, t), Lo: lo, Hi: hi}
		}
		return v
	}
	if m, ok := en.x.eng.db.Macros[name]; ok {
		if len(m.Params) != len(c.Args) {
			en.fail("macro %s expects %d arguments", name, len(m.Params))
		}
		sub := *en
		sub.vars = map[string]Val{}
		for k, v := range en.vars {
			sub.vars[k] = v
		}
		for i, p := range m.Params {
			sub.vars[p] = en.eval(c.Args[i])
		}
		sub.src = m.Body
		return sub.eval(m.Body.E)
	}
	if uf, ok := en.x.eng.db.UFs[name]; ok {
		var args []string
		for _, a := range c.Args {
			v := en.eval(a)
			switch v.K {
			case KSeq:
				args = append(args, v.S, v.Len)
			case KSlice, KArr:
				q := en.toSeq(v)
				args = append(args, q.S, q.Len)
			case KIface:
				args = append(args, v.Tag, v.Dat)
			case KStruct:
				args = append(args, flatten(v)...)
			default:
				args = append(args, v.S)
			}
		}
		if len(args) != len(uf.Args) {
			en.fail("uf %s expects %d sort arguments, got %d", name, len(uf.Args), len(args))
		}
		en.x.eng.usedUF[name] = true
		t := name
		if len(args) > 0 {
			t = app(name, args...)
		}
		switch {
		case uf.Ret == sBool:
			return boolVal(t)
		case strings.HasPrefix(uf.Ret, "Seq:"):
			// fixed-length sequence result (canonical by construction)
			n := strings.TrimPrefix(uf.Ret, "Seq:")
			en.x.eng.usedUF["sq.canon"] = true
			return Val{K: KSeq, S: app("sq.canon", t, "0", n), Len: n}
		case uf.Ret == "Seq":
			return Val{K: KSeq, S: app(name+".arr", args...), Len: app(name+".len", args...)}
		case uf.Ret == sStr:
			return Val{K: KStr, S: t, T: types.Typ[types.String]}
		case uf.Ret == sAI:
			return Val{K: KArr, S: t}
		}
		return mathInt(t)
	}
	en.fail("unknown spec function %s", name)
	return Val{}
}

func boolStr(b bool) string {
	if b {
		return "true"
	}
	return "false"
}

func markHS(v Val, st *State) Val {
	v.HS = st
	for i := range v.Fs {
		v.Fs[i] = markHS(v.Fs[i], st)
	}
	return v
}

func (en *SpecEnv) isPkgName(name string) bool {
	if _, ok := en.vars[name]; ok {
		return false
	}
	if en.scope != nil {
		if _, obj := en.scope.LookupParent(name, en.pos); obj != nil {
			_, isPkg := obj.(*types.PkgName)
			return isPkg
		}
	}
	return false
}

func (en *SpecEnv) basicType(name string) types.Type {
	if obj := types.Universe.Lookup(name); obj != nil {
		if tn, ok := obj.(*types.TypeName); ok {
			return tn.Type()
		}
	}
	return nil
}

func (en *SpecEnv) typeExpr(e ast.Expr) types.Type {
	switch t := e.(type) {
	case *ast.StarExpr:
		return types.NewPointer(en.typeExpr(t.X))
	case *ast.Ident:
		if bt := en.basicType(t.Name); bt != nil {
			return bt
		}
		if en.scope != nil {
			if _, obj := en.scope.LookupParent(t.Name, en.pos); obj != nil {
				if tn, ok := obj.(*types.TypeName); ok {
					return tn.Type()
				}
			}
		}
		if en.pkg != nil {
			if tn, ok := en.pkg.Scope().Lookup(t.Name).(*types.TypeName); ok {
				return tn.Type()
			}
		}
	case *ast.SelectorExpr:
		v := en.eval(t)
		if v.K == KNone && v.T != nil {
			return v.T
		}
	}
	en.fail("not a type: %s", exprString(e))
	return nil
}

func (en *SpecEnv) quant(kind string, c *ast.CallExpr) Val {
	// forall(k, lo, hi, body)  or forall(k, body)
	id, ok := c.Args[0].(*ast.Ident)
	if !ok {
		en.fail("%s: first argument must be an identifier", kind)
	}
	en.x.eng.qctr++
	v := id.Name + "!q" + itoa(en.x.eng.qctr)
	sub := en.with(id.Name, Val{K: KInt, S: v})
	var rng string
	var body ast.Expr
	if len(c.Args) == 4 {
		lo, hi := en.eval(c.Args[1]), en.eval(c.Args[2])
		rng = mkAnd(mkCmp("<=", lo.S, v), mkCmp("<", v, hi.S))
		body = c.Args[3]
	} else if len(c.Args) == 2 {
		rng = "true"
		body = c.Args[1]
	} else {
		en.fail("%s needs (var, lo, hi, body) or (var, body)", kind)
	}
	b := sub.eval(body)
	if kind == "forall" {
		return boolVal(sf("(forall ((%s Int)) %s)", v, mkImp(rng, b.S)))
	}
	return boolVal(sf("(exists ((%s Int)) %s)", v, mkAnd(rng, b.S)))
}

// pureMethod: a call of a method declared pure on an interface (or a getter with a spec macro).
func (en *SpecEnv) pureMethod(recv Val, name string, c *ast.CallExpr) Val {
	if recv.T == nil {
		en.fail("method %s on untyped value", name)
	}
	obj, _, _ := types.LookupFieldOrMethod(recv.T, true, en.pkg, name)
	fn, ok := obj.(*types.Func)
	if !ok {
		en.fail("no method %s on %s", name, recv.T)
	}
	if recv.K == KIface {
		hs := en.hs(recv)
		var extra []string
		for _, a := range c.Args {
			extra = append(extra, en.eval(a).S)
		}
		return en.x.pureIfaceCall(hs, recv, fn, extra)
	}
	en.fail("method call %s in spec (only pure interface methods are supported)", name)
	return Val{}
}
