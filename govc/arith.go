package main

import (
	"go/token"
	"go/types"
	"math/big"
)

var big0 = big.NewInt(0)
var big1 = big.NewInt(1)

func bmin(a, b *big.Int) *big.Int {
	if a.Cmp(b) < 0 {
		return a
	}
	return b
}
func bmax(a, b *big.Int) *big.Int {
	if a.Cmp(b) > 0 {
		return a
	}
	return b
}

func fits(lo, hi *big.Int, t types.Type) bool {
	tl, th, ok := intRange(t)
	if !ok || lo == nil || hi == nil {
		return false
	}
	return lo.Cmp(tl) >= 0 && hi.Cmp(th) <= 0
}

// wrapTerm reduces a mathematical integer term into the range of t (two's complement).
func wrapTerm(term string, t types.Type) string {
	lo, hi, ok := intRange(t)
	if !ok {
		return term
	}
	if n, isLit := isNumLit(term); isLit {
		size := new(big.Int).Add(new(big.Int).Sub(hi, lo), big1)
		m := new(big.Int).Sub(n, lo)
		m.Mod(m, size)
		m.Add(m, lo)
		return num(m)
	}
	size := new(big.Int).Add(new(big.Int).Sub(hi, lo), big1)
	if lo.Sign() == 0 {
		return mkMod(term, num(size))
	}
	// signed: ((x - lo) mod size) + lo
	return mkAdd(mkMod(mkSub(term, num(lo)), num(size)), num(lo))
}

// finish gives the result of an arithmetic operation its Go meaning in type t:
// exact if it provably fits, otherwise wrapped (or an overflow obligation in nooverflow mode).
func (x *Exec) finish(s *State, term string, lo, hi *big.Int, t types.Type, pos token.Pos, what string) Val {
	if t == nil || !isIntegerType(t) {
		return Val{K: KInt, T: t, S: term, Lo: lo, Hi: hi}
	}
	if b, ok := under(t).(*types.Basic); ok && b.Info()&types.IsUntyped != 0 {
		return Val{K: KInt, T: t, S: term, Lo: lo, Hi: hi}
	}
	if fits(lo, hi, t) {
		return Val{K: KInt, T: t, S: term, Lo: lo, Hi: hi}
	}
	tl, th, _ := intRange(t)
	if x.fn.noOvf {
		x.oblige(s, "ovf", pos, mkAnd(mkCmp("<=", num(tl), term), mkCmp("<=", term, num(th))), what+" does not overflow "+t.String())
		s.assume(mkAnd(mkCmp("<=", num(tl), term), mkCmp("<=", term, num(th))))
		nl, nh := tl, th
		if lo != nil {
			nl = bmax(lo, tl)
		}
		if hi != nil {
			nh = bmin(hi, th)
		}
		return Val{K: KInt, T: t, S: term, Lo: nl, Hi: nh}
	}
	w := s.define("w", sInt, wrapTerm(term, t))
	return Val{K: KInt, T: t, S: w, Lo: tl, Hi: th}
}

func isPow2(n *big.Int) (uint, bool) {
	if n.Sign() <= 0 {
		return 0, false
	}
	if new(big.Int).And(n, new(big.Int).Sub(n, big1)).Sign() != 0 {
		return 0, false
	}
	return uint(n.BitLen() - 1), true
}

func litOf(v Val) (*big.Int, bool) {
	if v.K != KInt {
		return nil, false
	}
	return isNumLit(v.S)
}

// truncDiv: Go's truncated division in terms of SMT's floor division.
func truncDivMod(a, b Val) (q, r string) {
	an := a.Lo != nil && a.Lo.Sign() >= 0
	bp := b.Lo != nil && b.Lo.Sign() > 0
	if an && bp {
		return mkDiv(a.S, b.S), mkMod(a.S, b.S)
	}
	// general: q = sgn * (|a| div |b|)
	absA := mkIte(mkCmp(">=", a.S, "0"), a.S, mkNeg(a.S))
	absB := mkIte(mkCmp(">=", b.S, "0"), b.S, mkNeg(b.S))
	if an {
		absA = a.S
	}
	if bp {
		absB = b.S
	}
	qa := mkDiv(absA, absB)
	same := mkEq(mkCmp(">=", a.S, "0"), mkCmp(">=", b.S, "0"))
	if an && bp {
		same = "true"
	} else if bp {
		same = mkCmp(">=", a.S, "0")
	} else if an {
		same = mkCmp(">=", b.S, "0")
	}
	q = mkIte(same, qa, mkNeg(qa))
	ra := mkMod(absA, absB)
	r = mkIte(mkCmp(">=", a.S, "0"), ra, mkNeg(ra))
	return
}

// arith evaluates a binary integer operation with Go semantics in result type t.
func (x *Exec) arith(s *State, op token.Token, a, b Val, t types.Type, pos token.Pos) Val {
	var lo, hi *big.Int
	known := a.Lo != nil && a.Hi != nil && b.Lo != nil && b.Hi != nil
	switch op {
	case token.ADD:
		if known {
			lo, hi = new(big.Int).Add(a.Lo, b.Lo), new(big.Int).Add(a.Hi, b.Hi)
		}
		return x.finish(s, mkAdd(a.S, b.S), lo, hi, t, pos, "addition")
	case token.SUB:
		if known {
			lo, hi = new(big.Int).Sub(a.Lo, b.Hi), new(big.Int).Sub(a.Hi, b.Lo)
		}
		return x.finish(s, mkSub(a.S, b.S), lo, hi, t, pos, "subtraction")
	case token.MUL:
		if known {
			c := []*big.Int{new(big.Int).Mul(a.Lo, b.Lo), new(big.Int).Mul(a.Lo, b.Hi), new(big.Int).Mul(a.Hi, b.Lo), new(big.Int).Mul(a.Hi, b.Hi)}
			lo, hi = c[0], c[0]
			for _, v := range c[1:] {
				lo, hi = bmin(lo, v), bmax(hi, v)
			}
		}
		return x.finish(s, mkMul(a.S, b.S), lo, hi, t, pos, "multiplication")
	case token.QUO, token.REM:
		if _, isLit := litOf(b); !isLit || b.S == "0" {
			x.oblige(s, "div", pos, mkNot(mkEq(b.S, "0")), "division by zero")
			s.assume(mkNot(mkEq(b.S, "0")))
		}
		q, r := truncDivMod(a, b)
		if op == token.QUO {
			if a.Lo != nil && a.Hi != nil && b.Lo != nil && b.Lo.Sign() > 0 {
				if a.Lo.Sign() >= 0 {
					lo, hi = new(big.Int).Quo(a.Lo, b.Hi), new(big.Int).Quo(a.Hi, b.Lo)
				} else {
					m := bmax(new(big.Int).Abs(a.Lo), new(big.Int).Abs(a.Hi))
					lo, hi = new(big.Int).Neg(m), m
				}
			}
			// MinInt / -1 is the only overflow; finish() handles it via range
			return x.finish(s, s.define("q", sInt, q), lo, hi, t, pos, "division")
		}
		if b.Lo != nil && b.Hi != nil && b.Lo.Sign() > 0 {
			m := new(big.Int).Sub(b.Hi, big1)
			if a.Lo != nil && a.Lo.Sign() >= 0 {
				lo, hi = big0, m
				if a.Hi != nil {
					hi = bmin(hi, a.Hi)
				}
			} else {
				lo, hi = new(big.Int).Neg(m), m
			}
		}
		return x.finish(s, s.define("r", sInt, r), lo, hi, t, pos, "remainder")
	case token.AND:
		if n, ok := litOf(b); ok {
			return x.andConst(s, a, n, t, pos)
		}
		if n, ok := litOf(a); ok {
			return x.andConst(s, b, n, t, pos)
		}
		x.eng.usedUF["bit.and"] = true
		r := Val{K: KInt, T: t, S: app("bit.and", a.S, b.S)}
		if a.Lo != nil && a.Lo.Sign() >= 0 && b.Lo != nil && b.Lo.Sign() >= 0 {
			r.Lo, r.Hi = big0, bmin(a.Hi, b.Hi)
			s.assume(mkAnd(mkCmp("<=", "0", r.S), mkCmp("<=", r.S, a.S), mkCmp("<=", r.S, b.S)))
		} else if tl, th, ok := intRange(t); ok {
			r.Lo, r.Hi = tl, th
			s.assume(rangeFact(t, r.S))
		}
		return r
	case token.OR, token.XOR:
		return x.orXor(s, op, a, b, t, pos)
	case token.SHL:
		if n, ok := litOf(b); ok && n.IsInt64() && n.Int64() >= 0 && n.Int64() < 128 {
			p := pow2(uint(n.Int64()))
			if a.Lo != nil && a.Hi != nil {
				lo, hi = new(big.Int).Mul(a.Lo, p), new(big.Int).Mul(a.Hi, p)
			}
			v := x.finishShl(s, mkMul(a.S, num(p)), lo, hi, t, pos)
			v.Sh = uint(n.Int64())
			return v
		}
		x.eng.usedUF["bit.shl"] = true
		r := Val{K: KInt, T: t, S: app("bit.shl", a.S, b.S)}
		if tl, th, ok := intRange(t); ok {
			r.Lo, r.Hi = tl, th
			s.assume(rangeFact(t, r.S))
		}
		return r
	case token.SHR:
		if n, ok := litOf(b); ok && n.IsInt64() && n.Int64() >= 0 && n.Int64() < 128 {
			p := pow2(uint(n.Int64()))
			if a.Lo != nil && a.Hi != nil {
				lo = new(big.Int).Div(a.Lo, p)
				hi = new(big.Int).Div(a.Hi, p)
			}
			return Val{K: KInt, T: t, S: mkDiv(a.S, num(p)), Lo: lo, Hi: hi}
		}
		x.eng.usedUF["bit.shr"] = true
		r := Val{K: KInt, T: t, S: app("bit.shr", a.S, b.S)}
		if a.Lo != nil && a.Lo.Sign() >= 0 {
			r.Lo, r.Hi = big0, a.Hi
			s.assume(mkAnd(mkCmp("<=", "0", r.S), mkCmp("<=", r.S, a.S)))
		} else if tl, th, ok := intRange(t); ok {
			r.Lo, r.Hi = tl, th
			s.assume(rangeFact(t, r.S))
		}
		return r
	case token.AND_NOT:
		if n, ok := litOf(b); ok {
			if _, _, isInt := intRange(t); isInt {
				// a &^ c == a & ^c ; handle low-mask case: c = 2^k-1
				if k, ok := isPow2(new(big.Int).Add(n, big1)); ok {
					return Val{K: KInt, T: t, S: mkSub(a.S, mkMod(a.S, num(pow2(k)))), Lo: a.Lo, Hi: a.Hi}
				}
			}
		}
		x.eng.usedUF["bit.andnot"] = true
		r := Val{K: KInt, T: t, S: app("bit.andnot", a.S, b.S)}
		if tl, th, ok := intRange(t); ok {
			r.Lo, r.Hi = tl, th
			s.assume(rangeFact(t, r.S))
		}
		return r
	}
	x.eng.unsupported(pos, "integer operator %s", op)
	return Val{}
}

// shifts left never panic and wrap silently in Go; treat like multiplication.
func (x *Exec) finishShl(s *State, term string, lo, hi *big.Int, t types.Type, pos token.Pos) Val {
	if fits(lo, hi, t) || t == nil {
		return Val{K: KInt, T: t, S: term, Lo: lo, Hi: hi}
	}
	if b, ok := under(t).(*types.Basic); ok && b.Info()&types.IsUntyped != 0 {
		return Val{K: KInt, T: t, S: term, Lo: lo, Hi: hi}
	}
	tl, th, ok := intRange(t)
	if !ok {
		return Val{K: KInt, T: t, S: term, Lo: lo, Hi: hi}
	}
	if x.fn.noOvf {
		return x.finish(s, term, lo, hi, t, pos, "shift")
	}
	w := s.define("w", sInt, wrapTerm(term, t))
	return Val{K: KInt, T: t, S: w, Lo: tl, Hi: th}
}

func (x *Exec) andConst(s *State, a Val, n *big.Int, t types.Type, pos token.Pos) Val {
	// x & (2^k - 1)  ==  x mod 2^k   (two's complement, any sign of x)
	if n.Sign() >= 0 {
		if k, ok := isPow2(new(big.Int).Add(n, big1)); ok {
			if a.Lo != nil && a.Lo.Sign() >= 0 && a.Hi != nil && a.Hi.Cmp(n) <= 0 {
				return Val{K: KInt, T: t, S: a.S, Lo: a.Lo, Hi: a.Hi}
			}
			return Val{K: KInt, T: t, S: mkMod(a.S, num(pow2(k))), Lo: big0, Hi: n}
		}
		if n.Sign() == 0 {
			return constInt(t, big0)
		}
		// single bit / general mask: x & 2^k = ((x div 2^k) mod 2) * 2^k
		if k, ok := isPow2(n); ok {
			p := num(pow2(k))
			return Val{K: KInt, T: t, S: mkMul(mkMod(mkDiv(a.S, p), "2"), p), Lo: big0, Hi: n}
		}
		// contiguous mask 2^h - 2^l
		low := uint(0)
		for n.Bit(int(low)) == 0 {
			low++
		}
		shifted := new(big.Int).Rsh(n, low)
		if k, ok := isPow2(new(big.Int).Add(shifted, big1)); ok {
			pl := num(pow2(low))
			return Val{K: KInt, T: t, S: mkMul(mkMod(mkDiv(a.S, pl), num(pow2(k))), pl), Lo: big0, Hi: n}
		}
	} else {
		// x & -2^k == x - (x mod 2^k)
		if k, ok := isPow2(new(big.Int).Neg(n)); ok {
			m := mkMod(a.S, num(pow2(k)))
			var lo *big.Int
			if a.Lo != nil {
				lo = new(big.Int).Sub(a.Lo, new(big.Int).Sub(pow2(k), big1))
				if tl, _, ok := intRange(t); ok {
					lo = bmax(lo, tl)
				}
			}
			return Val{K: KInt, T: t, S: mkSub(a.S, m), Lo: lo, Hi: a.Hi}
		}
	}
	// unsigned complement masks (e.g. uint32 &^ style constants): 2^w - 2^k
	if tl, th, ok := intRange(t); ok && tl.Sign() == 0 {
		c := new(big.Int).Sub(new(big.Int).Add(th, big1), n)
		if k, ok := isPow2(c); ok {
			return Val{K: KInt, T: t, S: mkSub(a.S, mkMod(a.S, num(pow2(k)))), Lo: big0, Hi: a.Hi}
		}
	}
	x.eng.usedUF["bit.and"] = true
	r := Val{K: KInt, T: t, S: app("bit.and", a.S, num(n))}
	if n.Sign() >= 0 {
		r.Lo, r.Hi = big0, n
		s.assume(mkAnd(mkCmp("<=", "0", r.S), mkCmp("<=", r.S, num(n))))
	} else if tl, th, ok := intRange(t); ok {
		r.Lo, r.Hi = tl, th
		s.assume(rangeFact(t, r.S))
	}
	return r
}

// shiftAmount recognises terms of the form (* t 2^k) and returns k.
func shiftAmount(term string) (uint, bool) {
	if len(term) < 5 || term[:3] != "(* " {
		return 0, false
	}
	// last argument
	i := len(term) - 2
	for i >= 0 && term[i] >= '0' && term[i] <= '9' {
		i--
	}
	if i < 0 || term[i] != ' ' {
		return 0, false
	}
	n, ok := new(big.Int).SetString(term[i+1:len(term)-1], 10)
	if !ok {
		return 0, false
	}
	return isPow2(n)
}

func (x *Exec) orXor(s *State, op token.Token, a, b Val, t types.Type, pos token.Pos) Val {
	// disjoint OR/XOR: (hi-part multiple of 2^k) | (0 <= lo-part < 2^k)  ==  sum
	try := func(hiV, loV Val) (Val, bool) {
		k, ok := x.multipleOfPow2(s, hiV)
		if !ok {
			return Val{}, false
		}
		p := pow2(k)
		if loV.Lo != nil && loV.Hi != nil && loV.Lo.Sign() >= 0 && loV.Hi.Cmp(p) < 0 {
			var lo, hi *big.Int
			if hiV.Lo != nil && hiV.Hi != nil {
				lo, hi = new(big.Int).Add(hiV.Lo, loV.Lo), new(big.Int).Add(hiV.Hi, loV.Hi)
			}
			return Val{K: KInt, T: t, S: mkAdd(hiV.S, loV.S), Lo: lo, Hi: hi}, true
		}
		return Val{}, false
	}
	if v, ok := try(a, b); ok {
		return v
	}
	if v, ok := try(b, a); ok {
		return v
	}
	if n, ok := litOf(b); ok && n.Sign() == 0 {
		return a
	}
	if n, ok := litOf(a); ok && n.Sign() == 0 {
		return b
	}
	if op == token.XOR {
		// v ^ 1 on a non-negative value flips the lowest bit: v + 1 - 2*(v mod 2)
		flip := func(v, one Val) (Val, bool) {
			n, ok := litOf(one)
			if !ok || n.Cmp(big1) != 0 || v.Lo == nil || v.Lo.Sign() < 0 || v.Hi == nil {
				return Val{}, false
			}
			r := Val{K: KInt, T: t, S: mkSub(mkAdd(v.S, "1"), mkMul("2", mkMod(v.S, "2")))}
			r.Lo, r.Hi = big0, new(big.Int).Add(v.Hi, big1)
			return r, true
		}
		if v, ok := flip(a, b); ok {
			return v
		}
		if v, ok := flip(b, a); ok {
			return v
		}
	}
	name := "bit.or"
	if op == token.XOR {
		name = "bit.xor"
	}
	x.eng.usedUF[name] = true
	r := Val{K: KInt, T: t, S: app(name, a.S, b.S)}
	// semantic disjointness: one operand was produced by "<< k"; if it is a multiple of 2^k and the
	// other lies in [0, 2^k) the result is their sum (decided by the solver, not syntactically)
	sem := func(hiV, loV Val) bool {
		if hiV.Sh == 0 {
			return false
		}
		p := num(pow2(hiV.Sh))
		cond := mkAnd(mkEq(mkMod(hiV.S, p), "0"), mkCmp("<=", "0", loV.S), mkCmp("<", loV.S, p))
		r.S = s.define("or", sInt, mkIte(cond, mkAdd(hiV.S, loV.S), r.S))
		return true
	}
	if !sem(a, b) {
		sem(b, a)
	}
	if a.Lo != nil && a.Lo.Sign() >= 0 && b.Lo != nil && b.Lo.Sign() >= 0 && a.Hi != nil && b.Hi != nil {
		// result < 2^bitlen(max)
		m := bmax(a.Hi, b.Hi)
		r.Lo, r.Hi = big0, new(big.Int).Sub(pow2(uint(m.BitLen())), big1)
		s.assume(mkAnd(mkCmp("<=", "0", r.S), mkCmp("<=", r.S, num(r.Hi))))
	} else if tl, th, ok := intRange(t); ok {
		r.Lo, r.Hi = tl, th
		s.assume(rangeFact(t, r.S))
	}
	return r
}

// multipleOfPow2 reports k if v is syntactically t*2^k (a shifted value).
func (x *Exec) multipleOfPow2(s *State, v Val) (uint, bool) {
	if k, ok := shiftAmount(v.S); ok {
		return k, true
	}
	if d, ok := s.eng.defs[v.S]; ok {
		if k, ok := shiftAmount(d); ok {
			return k, true
		}
	}
	if n, ok := litOf(v); ok && n.Sign() > 0 {
		k := uint(0)
		for n.Bit(int(k)) == 0 {
			k++
		}
		return k, true
	}
	return 0, false
}

// convertInt converts integer value v to integer type t (exact modular semantics).
func (x *Exec) convertInt(s *State, v Val, t types.Type, pos token.Pos) Val {
	if !isIntegerType(t) {
		v.T = t
		return v
	}
	if fits(v.Lo, v.Hi, t) {
		v.T = t
		return v
	}
	tl, th, _ := intRange(t)
	// a value of a narrower or equal-range type always fits: checked above through bounds.
	w := s.define("cv", sInt, wrapTerm(v.S, t))
	return Val{K: KInt, T: t, S: w, Lo: tl, Hi: th}
}
