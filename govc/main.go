package main

import (
	"encoding/json"
	"flag"
	"fmt"
	"go/ast"
	"go/types"
	"os"
	"os/exec"
	"path/filepath"
	"runtime"
	"sort"
	"strconv"
	"strings"
	"time"
)

// PropSpec is /verif/props/<id>.json: the ledger of one property.
type PropSpec struct {
	ID        string     `json:"id"`
	Title     string     `json:"title"`
	Packages  []string   `json:"packages"`
	Functions []FuncRef  `json:"functions"`
	Lemmas    []string   `json:"lemmas"`
	Assumed   []string   `json:"assumptions"`
	Undecided []string   `json:"undecided_clauses"`
	Bounded   []BoundRef `json:"bounded"`
	// BoundedFuncs: functions outside the verifier's reach whose executable contract is only RUN on the
	// real code over a stated finite/pseudo-random input set (bounded stand-in: never counted as proved)
	BoundedFuncs []BoundedFunc `json:"bounded_functions"`
	Notes     []string   `json:"notes"`
	Timeout   int        `json:"timeout_s"`
	// Also: other ledgers whose functions this property depends on (e.g. the DH checks that the key
	// exchange calls): they are checked too, in their own package load, and reported under this property
	Also []string `json:"also"`
	// ThoroughPackages / ThoroughFunctions: additional packages and functions checked only by the
	// thorough tier (e.g. the larger generated packages of C21)
	ThoroughPackages  []string  `json:"thorough_packages"`
	ThoroughFunctions []FuncRef `json:"thorough_functions"`
}

type FuncRef struct {
	Pkg string `json:"pkg"`
	Key string `json:"key"`
}

type BoundedFunc struct {
	Pkg   string `json:"pkg"`
	Key   string `json:"key"`
	Bound string `json:"bound"`
	Iters int    `json:"iterations"`
}

type BoundRef struct {
	Name  string `json:"name"`
	Cmd   string `json:"cmd"`
	Bound string `json:"bound"`
}

type KnownFinding struct {
	Property string `json:"property"`
	Status   string `json:"status"` // known | fixed
	Func     string `json:"func"`
	Kind     string `json:"kind"`
	Match    string `json:"match"` // substring of the obligation description
	What     string `json:"what"`
	Commit   string `json:"commit,omitempty"`
	// Class is a spec expression over the function's inputs (entry state) describing exactly the
	// failing inputs that are known.  The obligation is re-checked under "not Class": only if it
	// then discharges is the failure the known one; a failure outside the class is a VIOLATION.
	Class string `json:"class,omitempty"`

	classTerm string
}

func main() {
	if len(os.Args) < 2 {
		fmt.Fprintln(os.Stderr, "usage: govc check -prop <id> [-tier quick|thorough] | govc dump ...")
		os.Exit(2)
	}
	switch os.Args[1] {
	case "check":
		os.Exit(cmdCheck(os.Args[2:]))
	default:
		fmt.Fprintln(os.Stderr, "unknown command", os.Args[1])
		os.Exit(2)
	}
}

func cmdCheck(argv []string) int {
	fs := flag.NewFlagSet("check", flag.ExitOnError)
	prop := fs.String("prop", "", "property id")
	tier := fs.String("tier", "quick", "quick|thorough")
	keep := fs.Bool("keep", false, "keep SMT files")
	verbose := fs.Bool("v", false, "verbose")
	only := fs.String("only", "", "only this function key")
	noReplay := fs.Bool("noreplay", false, "skip replay")
	noEvidence := fs.Bool("noevidence", false, "do not write the evidence file (self-tests)")
	reportAs := fs.String("as", "", "report results under this property id (sub-ledger runs)")
	fs.Parse(argv)
	ledger := *prop
	if t := os.Getenv("VERIF_TIER"); t != "" && *tier == "quick" {
		*tier = t
	}
	seed := int64(1)
	if sv := os.Getenv("VERIF_SEED"); sv != "" {
		if n, err := strconv.ParseInt(sv, 10, 64); err == nil {
			seed = n
		}
	}
	t0 := time.Now()
	var spec PropSpec
	data, err := os.ReadFile("/verif/props/" + ledger + ".json")
	if err != nil {
		fmt.Fprintln(os.Stderr, err)
		return 2
	}
	if err := json.Unmarshal(data, &spec); err != nil {
		fmt.Fprintln(os.Stderr, "props file:", err)
		return 2
	}
	var known []KnownFinding
	if kd, err := os.ReadFile("/verif/known_findings.json"); err == nil {
		if err := json.Unmarshal(kd, &known); err != nil {
			fmt.Fprintln(os.Stderr, "known_findings.json:", err)
			return 2
		}
	}
	if *reportAs != "" {
		*prop = *reportAs // everything below reports under the parent property; the ledger is `ledger`
		*noEvidence = true
	}
	eng := newEngine()
	eng.known = known
	knownObls := 0
	knownUndischarged := 0
	if *tier == "thorough" {
		spec.Packages = append(spec.Packages, spec.ThoroughPackages...)
		spec.Functions = append(spec.Functions, spec.ThoroughFunctions...)
	}
	if err := eng.load(spec.Packages); err != nil {
		fmt.Fprintln(os.Stderr, "load:", err)
		// a tree that does not compile cannot be verified: report as infrastructure error
		return 2
	}
	if err := eng.prepareAxioms(); err != nil {
		fmt.Fprintln(os.Stderr, "axioms:", err)
		return 2
	}
	loadSecs := time.Since(t0).Seconds()
	var immutableBroken []string
	for _, b := range eng.checkImmutable() {
		// a field the contracts rely on as written-once is assigned outside a constructor
		o := &Obligation{Name: "immutable#" + sanitize(b), Kind: "immutable", Fn: "immutable", Pos: b, Desc: "field declared immutable is assigned outside a constructor: " + b, Status: "syntactic"}
		rp := writeReplayText(*prop, o, "a field declared immutable in the contracts (unknown code is assumed not to change it) is assigned outside a constructor: "+b)
		immutableBroken = append(immutableBroken, fmt.Sprintf("VIOLATION property=%s replay=%s obligation=%s %s no-failing-input-found", *prop, rp, o.Name, b))
	}
	for _, b := range eng.checkNonNil() {
		o := &Obligation{Name: "nonnil#" + sanitize(b), Kind: "nonnil", Fn: "nonnil", Pos: b, Desc: "field declared nonnil is not established by a constructor: " + b, Status: "syntactic"}
		rp := writeReplayText(*prop, o, "a pointer field declared nonnil in the contracts (loads of it are assumed non-nil) is not set by every constructor: "+b)
		immutableBroken = append(immutableBroken, fmt.Sprintf("VIOLATION property=%s replay=%s obligation=%s %s no-failing-input-found", *prop, rp, o.Name, b))
	}
	var reports []FuncReport
	for _, fr := range spec.Functions {
		if *only != "" && fr.Key != *only {
			continue
		}
		rep := eng.verifyFunc("github.com/gotd/td/"+fr.Pkg, fr.Key)
		reports = append(reports, rep)
		if *verbose {
			fmt.Printf("func %-50s obligations=%d %s\n", rep.Name, rep.Obligations, rep.Unsupported)
		}
	}
	for _, ln := range spec.Lemmas {
		eng.addLemma(ln)
	}
	// vacuity guard for the background theory: the axioms used by this run must not be contradictory
	eng.obls = append(eng.obls, &Obligation{Name: "axioms#cover:consistent", Kind: "cover", Fn: "axioms", Pos: "/verif/govc/solve.go, /verif/specs",
		Desc: "background axioms (strings, sequences, spec functions) are not contradictory", Goal: "false", Cover: true, AllAxioms: true})
	timeout := 10 * time.Second
	if spec.Timeout > 0 {
		timeout = time.Duration(spec.Timeout) * time.Second
	}
	if *tier == "thorough" {
		timeout *= 6
	}
	work := filepath.Join(os.TempDir(), fmt.Sprintf("govc-%s-%d", *prop, os.Getpid()))
	par := runtime.NumCPU() / 2
	if par < 2 {
		par = 2
	}
	ts := time.Now()
	eng.solveAll(work, timeout, par)
	solveSecs := time.Since(ts).Seconds()

	// classify
	exit := 0
	var violations []string
	if len(immutableBroken) > 0 {
		exit = 1
		violations = append(violations, immutableBroken...)
	}
	var knownPrinted []string
	discharged, total := 0, 0
	wins := map[string]int{}
	solverSecs := 0.0
	var slowest *Obligation
	var samples []map[string]string
	undecidedFuncs := []string{}
	os.MkdirAll(replayDir(), 0o755)
	witnessRuns := []string{}
	for _, r := range reports {
		if r.Unsupported != "" {
			undecidedFuncs = append(undecidedFuncs, r.Name+": "+r.Unsupported)
			// the verifier cannot speak about this function: search for a witness by running the
			// executable contract on the real code; only a reproduced failure is a violation
			if f := eng.topFns[r.Name]; f != nil && !*noReplay && (len(f.contract.Ensures) > 0 || true) {
				file, found, summary := eng.witnessSearch(*prop, f, seed)
				witnessRuns = append(witnessRuns, r.Name+": "+summary)
				if found {
					exit = 1
					violations = append(violations, fmt.Sprintf("VIOLATION property=%s replay=%s function=%s undecided-by-verifier(%s) witness-found-on-real-code", *prop, file, r.Name, truncate(r.Unsupported, 160)))
					continue
				}
			}
			fmt.Printf("UNDECIDED function=%s reason=%s\n", r.Name, r.Unsupported)
		}
	}
	// bounded stand-ins: run the executable contract on the real function; nothing is proved
	var boundedReports []map[string]interface{}
	for _, bf := range spec.BoundedFuncs {
		before := len(eng.obls)
		rep := eng.verifyFunc("github.com/gotd/td/"+bf.Pkg, bf.Key)
		eng.obls = eng.obls[:before] // no deductive claim for this function
		f := eng.topFns[rep.Name]
		entry := map[string]interface{}{"function": rep.Name, "bound": bf.Bound, "proved": false}
		if f == nil || *noReplay {
			entry["result"] = "not run"
			boundedReports = append(boundedReports, entry)
			continue
		}
		iters := bf.Iters
		if iters == 0 {
			iters = 20000
		}
		o := &Obligation{Name: f.name + "#bounded", Kind: "bounded", Fn: f.name, Pos: rep.File,
			Desc: "bounded stand-in (" + bf.Bound + "): executable contract run on the real function", Status: "bounded"}
		file, found, summary := eng.genReplay(*prop, f, o, nil, seed, iters)
		entry["result"] = summary
		entry["replay"] = file
		boundedReports = append(boundedReports, entry)
		if found {
			exit = 1
			violations = append(violations, fmt.Sprintf("VIOLATION property=%s replay=%s function=%s bounded-stand-in(%s) witness-found-on-real-code", *prop, file, rep.Name, bf.Bound))
		}
	}
	harnessTried := map[string]string{}
	type retGroup struct {
		first        *Obligation
		n, reachable int
	}
	retCover := map[string]*retGroup{}
	for _, o := range eng.obls {
		solverSecs += o.Secs
		if slowest == nil || o.Secs > slowest.Secs {
			slowest = o
		}
		if o.Kind == "cover-ret" {
			// individually a return path may be dead code; the function is vacuous only if none is reachable
			g := retCover[o.Fn]
			if g == nil {
				g = &retGroup{first: o}
				retCover[o.Fn] = g
			}
			g.n++
			if o.Status != "unsat" {
				g.reachable++
			} else if o.Must {
				// a success return that no input reaches under the assumed contracts: whatever was
				// "proved" about success is vacuous
				exit = 1
				rp := writeReplayText(*prop, o, "vacuity: the success return at "+o.Pos+" is unreachable under the contracts assumed on the way (contradictory or too strong assumptions)")
				violations = append(violations, fmt.Sprintf("VIOLATION property=%s replay=%s obligation=%s vacuous: success return unreachable no-failing-input-found", *prop, rp, o.Name))
			}
			continue
		}
		if o.Cover {
			total++
			switch o.Status {
			case "sat", "unknown", "timeout":
				discharged++ // satisfiable (or not refuted): the contract is not vacuous
			case "unsat":
				exit = 1
				rp := writeReplayText(*prop, o, "vacuity: "+o.Desc+" is UNSATISFIABLE (contradictory requires/assumptions)")
				violations = append(violations, fmt.Sprintf("VIOLATION property=%s replay=%s obligation=%s vacuous-contract no-failing-input-found", *prop, rp, o.Name))
			}
			continue
		}
		total++
		if o.Status == "unsat" {
			discharged++
			wins[o.Solver]++
			if len(samples) < 3 {
				samples = append(samples, map[string]string{"obligation": o.Name, "at": o.Pos, "what": o.Desc, "goal": truncate(o.Goal, 400), "solver": o.Solver})
			}
			continue
		}
		// failed or undecided obligation
		if kf := matchKnown(eng.known, ledger, o); kf != nil {
			isKnown := true
			if kf.Class != "" {
				// the failure is the known one only if nothing fails outside the recorded witness class
				isKnown = false
				if kf.classTerm != "" {
					r := eng.recheck(o, []string{mkNot(kf.classTerm)}, timeout)
					if r.status == "unsat" {
						isKnown = true
					} else {
						o.Status, o.Raw, o.Solver = r.status, r.out, r.solver
						if r.status == "sat" {
							o.Model = parseValues(r.out)
						}
						o.Desc += " [fails outside the known-finding class: " + kf.Class + "]"
					}
				}
			}
			if isKnown {
				line := fmt.Sprintf("KNOWN-FINDING: property=%s %s [obligation %s at %s: %s]", *prop, kf.What, o.Name, o.Pos, o.Desc)
				knownPrinted = append(knownPrinted, line)
				knownObls++
				if kf.Class != "" {
					discharged++ // discharged outside the recorded known-finding class (reported separately)
				} else {
					knownUndischarged++ // recorded known finding: not claimed as proved
				}
				continue
			}
		}
		exit = 1
		var rp string
		suffix := ""
		if o.Status == "sat" && !*noReplay {
			var ok bool
			rp, ok = eng.replay(*prop, o, seed)
			if !ok {
				suffix = " no-failing-input-found"
			}
		} else {
			rp = writeReplayText(*prop, o, "solver status: "+o.Status+" ("+o.Raw+")")
			suffix = " no-failing-input-found"
			// no model: look for a failing input by running the executable contract (once per function)
			if !*noReplay {
				if prev, done := harnessTried[o.Fn]; done {
					if prev != "" {
						rp, suffix = prev, ""
					}
				} else if f := eng.topFns[o.Fn]; f != nil {
					file, found, _ := eng.genReplay(*prop, f, o, nil, seed, 5000)
					harnessTried[o.Fn] = ""
					if found {
						harnessTried[o.Fn] = file
						rp, suffix = file, ""
					}
				}
			}
		}
		violations = append(violations, fmt.Sprintf("VIOLATION property=%s replay=%s obligation=%s at=%s status=%s what=%q%s", *prop, rp, o.Name, o.Pos, o.Status, o.Desc, suffix))
	}
	var fnsCovered []string
	for fn := range retCover {
		fnsCovered = append(fnsCovered, fn)
	}
	sort.Strings(fnsCovered)
	for _, fn := range fnsCovered {
		g := retCover[fn]
		total++
		if g.reachable > 0 {
			discharged++
			continue
		}
		exit = 1
		rp := writeReplayText(*prop, g.first, "vacuity: no return path of "+fn+" is reachable under its contract and the assumed contracts it uses (contradictory assumptions)")
		violations = append(violations, fmt.Sprintf("VIOLATION property=%s replay=%s function=%s vacuous: no return path reachable (%d paths) no-failing-input-found", *prop, rp, fn, g.n))
	}
	if total == 0 {
		exit = 1
		violations = append(violations, fmt.Sprintf("VIOLATION property=%s replay=/verif/props/%s.json zero-obligations-generated no-failing-input-found", *prop, *prop))
	}
	if eng.db.Assumes > 0 {
		exit = 1
		violations = append(violations, fmt.Sprintf("VIOLATION property=%s replay=/verif/props/%s.json contract-file-contains-assume no-failing-input-found", *prop, *prop))
	}
	for _, l := range dedup(knownPrinted) {
		fmt.Println(l)
	}
	for _, v := range violations {
		fmt.Println(v)
	}
	if !*keep && exit == 0 {
		os.RemoveAll(work)
	}

	// evidence
	var fnames []string
	for _, r := range reports {
		s := r.Name + " [" + r.Arith + "; " + strconv.Itoa(r.Obligations) + " obligations"
		if !r.Contract {
			s += "; no contract: safety obligations only"
		}
		if r.Unsupported != "" {
			s += "; NOT VERIFIED: " + r.Unsupported
		}
		fnames = append(fnames, s+"]")
	}
	trusted := []string{
		"GoVC itself: the translation of Go semantics to SMT (" + strconv.Itoa(len(eng.declOrder)) + " symbols declared this run)",
		"solvers: z3 4.8.12, z3 5.1.0 (z3-new), cvc5 1.0.3",
		"memory allocation never fails; slice lengths/capacities below 2^48",
		"calls on loggers/tracers/metrics and error-message formatting are effect-free",
	}
	for _, k := range sortedStrings(eng.assumed) {
		trusted = append(trusted, "assumed contract: "+k)
	}
	for _, k := range sortedStrings(eng.unmod) {
		trusted = append(trusted, "unmodelled call: "+k)
	}
	for _, k := range sortedStrings(eng.notes) {
		trusted = append(trusted, k)
	}
	trusted = append(trusted, spec.Assumed...)
	ev := map[string]interface{}{
		"property_id": *prop,
		"tier":        *tier,
		"seed":        seed,
		"level":       "proof",
		"wall_s":      time.Since(t0).Seconds(),
		"violations":  len(violations),
		"coverage": map[string]interface{}{
			// obligations claimed by this proof-level run: those generated minus the ones recorded as
			// known findings (listed under known_findings_printed; they are reported, not claimed proved)
			"obligations":            total - knownUndischarged,
			"obligations_generated":  total,
			"obligations_recorded_as_known_findings": knownUndischarged,
			"discharged":             discharged,
			"checker_cmd":            "/verif/bin/govc check -prop " + *prop + " -tier " + *tier,
			"trusted_base":           trusted,
			"functions_under_contract": fnames,
			"solver_wins":            wins,
			"solver_seconds_total":   round2(solverSecs),
			"solve_wall_s":           round2(solveSecs),
			"load_s":                 round2(loadSecs),
			"slowest_obligation":     slowestInfo(slowest),
			"trivially_true_obligations_folded": eng.trivial,
			"samples":                samples,
			"known_findings_printed": dedup(knownPrinted),
			"discharged_only_outside_known_finding_class": knownObls,
			"undecided_functions":    undecidedFuncs,
			"undecided_clauses":      spec.Undecided,
			"bounded_stand_ins":      boundedReports,
			"contract_files":         eng.db.Files,
			"per_obligation_timeout_s": timeout.Seconds(),
		},
		"assumptions": append(append([]string{}, spec.Assumed...), spec.Notes...),
	}
	// dependent ledgers, each in its own process (own package load), reported under this property
	if *reportAs == "" && *only == "" {
		var subs []map[string]string
		for _, sl := range spec.Also {
			args := []string{"check", "-prop", sl, "-as", *prop, "-tier", *tier}
			if *noReplay {
				args = append(args, "-noreplay")
			}
			cmd := exec.Command(os.Args[0], args...)
			cmd.Env = os.Environ()
			out, err := cmd.CombinedOutput()
			last := ""
			for _, ln := range strings.Split(strings.TrimSpace(string(out)), "\n") {
				if strings.HasPrefix(ln, "VIOLATION ") {
					violations = append(violations, ln)
					fmt.Println(ln)
					exit = 1
				} else if strings.HasPrefix(ln, "KNOWN-FINDING:") || strings.HasPrefix(ln, "UNDECIDED ") {
					fmt.Println(ln)
				}
				last = ln
			}
			if err != nil && exit == 0 {
				if ee, ok := err.(*exec.ExitError); !ok || ee.ExitCode() != 1 {
					fmt.Println("sub-ledger " + sl + " failed to run: " + err.Error())
					exit = 2
				}
			}
			subs = append(subs, map[string]string{"ledger": sl, "result": last, "evidence": "/verif/evidence/" + sl + ".json (written by that property's own run)"})
		}
		if len(subs) > 0 {
			ev["coverage"].(map[string]interface{})["dependent_ledgers_checked_under_this_property"] = subs
			ev["violations"] = len(violations)
		}
	}
	if !*noEvidence {
		os.MkdirAll("/verif/evidence", 0o755)
		evb, _ := json.MarshalIndent(ev, "", " ")
		os.WriteFile("/verif/evidence/"+*prop+".json", evb, 0o644)
	}
	fmt.Printf("property=%s functions=%d obligations=%d discharged=%d known=%d violations=%d wall=%.1fs (load %.1fs, solve %.1fs)\n",
		*prop, len(reports), total, discharged, len(dedup(knownPrinted)), len(violations), time.Since(t0).Seconds(), loadSecs, solveSecs)
	return exit
}

func replayDir() string {
	if os.Getenv("VERIF_SELFTEST") != "" {
		d := os.Getenv("VERIF_SCRATCH")
		if d == "" {
			d = "/var/tmp/verif-scratch"
		}
		return d + "/replays"
	}
	return "/verif/replays"
}

func round2(f float64) float64 { return float64(int(f*100)) / 100 }

func slowestInfo(o *Obligation) interface{} {
	if o == nil {
		return nil
	}
	return map[string]interface{}{"obligation": o.Name, "secs": round2(o.Secs), "solver": o.Solver}
}

func truncate(s string, n int) string {
	if len(s) > n {
		return s[:n] + "…"
	}
	return s
}

func matchKnown(known []KnownFinding, prop string, o *Obligation) *KnownFinding {
	for i := range known {
		k := &known[i]
		if k.Status != "known" || k.Property != prop {
			continue
		}
		if k.Func != "" && k.Func != o.Fn {
			continue
		}
		if k.Kind != "" && k.Kind != o.Kind {
			continue
		}
		if k.Match != "" && !strings.Contains(o.Desc, k.Match) {
			continue
		}
		return k
	}
	return nil
}

func writeReplayText(prop string, o *Obligation, reason string) string {
	p := fmt.Sprintf("%s/%s_%s.txt", replayDir(), prop, sanitize(o.Name))
	var b strings.Builder
	fmt.Fprintf(&b, "property: %s\nobligation: %s\nkind: %s\nfunction: %s\nat: %s\nwhat: %s\nstatus: %s\nreason: %s\nsolver output: %s\ngoal: %s\nsmt file: %s\n",
		prop, o.Name, o.Kind, o.Fn, o.Pos, o.Desc, o.Status, reason, o.Raw, o.Goal, o.File)
	if len(o.Model) > 0 {
		b.WriteString("model (inputs):\n")
		var ks []string
		for _, in := range o.Inputs {
			if v, ok := o.Model[in.Term]; ok {
				ks = append(ks, fmt.Sprintf("  %s = %s", in.Name, v))
			}
		}
		sort.Strings(ks)
		b.WriteString(strings.Join(ks, "\n") + "\n")
	}
	os.WriteFile(p, []byte(b.String()), 0o644)
	return p
}

// prepareAxioms evaluates the axioms of the spec files once into closed SMT formulas.
func (e *Engine) prepareAxioms() error {
	var err error
	func() {
		defer func() {
			if r := recover(); r != nil {
				if u, ok := r.(unsupported); ok {
					err = fmt.Errorf("%s", u.msg)
					return
				}
				panic(r)
			}
		}()
		for _, ax := range e.db.Axioms {
			f := &FnCtx{eng: e, name: "axiom"}
			if p, ok := e.pkgs[ax.Pkg]; ok {
				f.pkg = p
			}
			x := &Exec{eng: e, fn: f}
			s := &State{eng: e, env: map[types.Object]Val{}, heap: map[string]string{}, held: map[string]bool{}, ghost: map[string]Val{}, memo: map[ast.Expr]Val{}, roRefs: map[string]string{}}
			env := &SpecEnv{x: x, s: s, vars: map[string]Val{}}
			if f.pkg != nil {
				env.pkg = f.pkg.Types
				env.scope = f.pkg.Types.Scope()
			}
			text := env.evalBool(ax.Body)
			var syms []string
			for t := range tokensOf(text) {
				if _, ok := e.db.UFs[strings.TrimSuffix(strings.TrimSuffix(t, ".arr"), ".len")]; ok {
					syms = append(syms, t)
				}
			}
			sort.Strings(syms)
			e.axiomTexts = append(e.axiomTexts, axiomText{name: ax.Name, text: text, syms: syms})
		}
	}()
	return err
}

// addLemma adds a named lemma of the spec files as a proof obligation.
func (e *Engine) addLemma(name string) {
	for _, lm := range e.db.Lemmas {
		if lm.Name != name {
			continue
		}
		f := &FnCtx{eng: e, name: "lemma." + name}
		if p, ok := e.pkgs[lm.Pkg]; ok {
			f.pkg = p
		}
		x := &Exec{eng: e, fn: f}
		s := &State{eng: e, env: map[types.Object]Val{}, heap: map[string]string{}, held: map[string]bool{}, ghost: map[string]Val{}, memo: map[ast.Expr]Val{}, roRefs: map[string]string{}}
		env := &SpecEnv{x: x, s: s, vars: map[string]Val{}}
		if f.pkg != nil {
			env.pkg = f.pkg.Types
			env.scope = f.pkg.Types.Scope()
		}
		var goal string
		func() {
			defer func() {
				if r := recover(); r != nil {
					if u, ok := r.(unsupported); ok {
						goal = "false"
						fmt.Println("lemma error:", u.msg)
						return
					}
					panic(r)
				}
			}()
			goal = env.evalBool(lm.Body)
		}()
		e.obls = append(e.obls, &Obligation{Name: "lemma." + name + "#lemma:1", Kind: "lemma", Fn: "lemma." + name,
			Pos: lm.Body.File + ":" + itoa(lm.Body.Line), Desc: "lemma " + name + ": " + lm.Body.Src, PC: s.pc, Goal: goal})
		return
	}
	e.obls = append(e.obls, &Obligation{Name: "lemma." + name + "#lemma:1", Kind: "lemma", Fn: "lemma." + name, Desc: "lemma " + name + " not found", Goal: "false"})
}
