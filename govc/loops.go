package main

import (
	"fmt"
	"os"
	"go/ast"
	"go/token"
	"go/types"
	"math/big"
	"regexp"
	"sort"
	"strconv"
	"strings"
)

// loopInvariants returns the invariants declared for a loop (by ordinal or label).
func (x *Exec) loopInvariants(st ast.Stmt) ([]*SpecExpr, string) {
	key := x.fn.loops[st]
	ord, label := key, ""
	if i := strings.Index(key, "|"); i >= 0 {
		ord, label = key[:i], key[i+1:]
	}
	ct, prefix := x.fn.contract, ""
	if x.fn.lit != nil {
		// invariants of loops inside func literals are addressed as "lit:<ordinal>" in the contract of
		// the enclosing declared function
		for f := x.fn; f != nil; f = f.litOwner {
			if f.decl != nil {
				ct = f.contract
				break
			}
			if f.litOwner == nil {
				break
			}
		}
		prefix = "lit:"
	}
	if ct == nil {
		return nil, key
	}
	var out []*SpecExpr
	out = append(out, ct.Loops[prefix+ord]...)
	if label != "" {
		out = append(out, ct.Loops[prefix+label]...)
	}
	return out, key
}

func (x *Exec) specEnvAt(s *State, pos token.Pos) *SpecEnv {
	f := x.fn
	vars := map[string]Val{}
	// <param>0 names the entry value of a parameter (Go parameters are mutable locals)
	for k, v := range f.specVars {
		vars[k+"0"] = v
	}
	var scope *types.Scope
	if f.pkg != nil {
		scope = innermostScope(f.pkg.TypesInfo, f.pkg.Types, pos, f)
	}
	old := f.entry
	if old == nil {
		for p := f.parent; p != nil && old == nil; p = p.parent {
			old = p.entry
		}
	}
	if old != nil && len(s.oldHeap) > 0 {
		old = old.clone()
		for n, term := range s.oldHeap {
			old.heap[n] = term
		}
	}
	return &SpecEnv{x: x, s: s, old: old, vars: vars, pos: pos, scope: scope, pkg: f.pkg.Types, info: f.pkg.TypesInfo}
}

// innermostScope finds the innermost lexical scope containing pos.
func innermostScope(info *types.Info, pkg *types.Package, pos token.Pos, f *FnCtx) *types.Scope {
	var root *types.Scope
	if f.decl != nil {
		root = info.Scopes[f.decl.Type]
	} else if f.lit != nil {
		root = info.Scopes[f.lit.Type]
	}
	if root == nil {
		return pkg.Scope()
	}
	if in := root.Innermost(pos); in != nil {
		return in
	}
	return root
}

// dryRun executes body-like code on a copy of the state with everything unknown and records what is written.
func (x *Exec) dryRun(s *State, run func(d *State) *State) (map[string]bool, map[types.Object]bool) {
	d := s.clone()
	d.written = map[string]bool{}
	d.wrLocal = map[types.Object]bool{}
	// forget all values so that constant folding cannot hide writes
	for o, v := range d.env {
		if v.K == KFunc || o.Type() == nil {
			continue
		}
		if x.isBoxed(o) || (v.K == KArr && v.Ref != "") {
			continue
		}
		d.env[o] = d.freshVal("dry."+o.Name(), o.Type())
	}
	for _, n := range sortedKeys(d.heap) {
		if n == "$alloc" {
			continue
		}
		d.heap[n] = x.eng.fresh(n+"@dry", x.eng.decl[d.heap[n]])
	}
	wasRec := x.eng.recording
	x.eng.recording = true
	savedTargets := x.targets
	savedRets := x.rets
	// recording runs must not leak states into enclosing break/continue targets
	type tsave struct{ b, c int }
	lens := make([]tsave, len(savedTargets))
	for i, tg := range savedTargets {
		lens[i] = tsave{len(tg.breaks), len(tg.conts)}
	}
	var back *State
	func() {
		defer func() {
			x.eng.recording = wasRec
			x.targets = savedTargets
			x.rets = savedRets
			for i, tg := range savedTargets {
				tg.breaks = tg.breaks[:lens[i].b]
				tg.conts = tg.conts[:lens[i].c]
			}
		}()
		back = run(d)
	}()
	if back == nil {
		// no path reaches the back edge: nothing written by earlier iterations matters
		return map[string]bool{}, map[types.Object]bool{}
	}
	return back.written, back.wrLocal
}

// loopHavoc remembers the pre-loop versions of the heap arrays a loop havocs, so that a frame
// ("locations the loop never writes keep their pre-loop value") can be assumed at the loop head.
type loopHavoc struct {
	hadStar  map[string]bool // arrays already written at unknown references before this loop's havoc
	pre      map[string]string
	preAlloc string
	ctr      int
}

var symNumRe = regexp.MustCompile(`![0-9]+`)

// invariantTerm: the term mentions no symbol created after the loop havoc started.
func invariantTerm(term string, ctr int) bool {
	for _, m := range symNumRe.FindAllString(term, -1) {
		n, _ := strconv.Atoi(m[1:])
		if n > ctr {
			return false
		}
	}
	return true
}

// replaceSym replaces whole-symbol occurrences of from by to in an SMT term.
func replaceSym(term, from, to string) string {
	var b strings.Builder
	for {
		i := strings.Index(term, from)
		if i < 0 {
			b.WriteString(term)
			return b.String()
		}
		end := i + len(from)
		boundary := end == len(term) || term[end] == ' ' || term[end] == ')'
		if i > 0 && term[i-1] != ' ' && term[i-1] != '(' {
			boundary = false
		}
		b.WriteString(term[:i])
		if boundary {
			b.WriteString(to)
		} else {
			b.WriteString(from)
		}
		term = term[end:]
	}
}

// loopFrame runs the body once more from the loop-head state (recording only) to learn at which
// references each havocked heap array is written, and assumes that all other pre-existing
// references keep their pre-loop contents.
func (x *Exec) loopFrame(s *State, lh *loopHavoc, run func(d *State) *State) {
	if len(lh.pre) == 0 {
		return
	}
	d := s.clone()
	d.wrefs = map[string]map[string]*pcNode{}
	var allocs []string
	d.allocs = &allocs
	d.written = map[string]bool{}
	d.wrLocal = map[types.Object]bool{}
	wasRec := x.eng.recording
	x.eng.recording = true
	savedTargets := x.targets
	savedRets := x.rets
	// recording runs must not leak states into enclosing break/continue targets
	type tsave struct{ b, c int }
	lens := make([]tsave, len(savedTargets))
	for i, tg := range savedTargets {
		lens[i] = tsave{len(tg.breaks), len(tg.conts)}
	}
	var back *State
	func() {
		defer func() {
			x.eng.recording = wasRec
			x.targets = savedTargets
			x.rets = savedRets
			for i, tg := range savedTargets {
				tg.breaks = tg.breaks[:lens[i].b]
				tg.conts = tg.conts[:lens[i].c]
			}
		}()
		back = run(d)
	}()
	if back == nil {
		back = &State{wrefs: map[string]map[string]*pcNode{}}
	}
	d = back
	fresh := map[string]bool{}
	for _, a := range allocs {
		fresh[a] = true
	}
	a0 := x.eng.declare("alloc@0", sInt)
	for _, name := range sortedKeys(lh.pre) {
		set := d.wrefs[name]
		if _, unknown := set["*"]; unknown {
			if os.Getenv("GOVC_DEBUG_FRAME") != "" {
				fmt.Fprintf(os.Stderr, "loopFrame: %s written at unknown refs\n", name)
			}
			continue
		}
		var refs []string
		ok := true
		bound := lh.preAlloc // references below this bound (and not written) keep their contents
		var rs []string
		for r := range set {
			rs = append(rs, r)
		}
		sort.Strings(rs)
		for _, r := range rs {
			if fresh[r] {
				continue
			}
			if r == "fresh*" {
				// an inner loop wrote at references allocated by this function
				bound = a0
				continue
			}
			if invariantTerm(r, lh.ctr) {
				refs = append(refs, r)
				continue
			}
			// a varying reference: acceptable if it provably did not exist at function entry
			// (e.g. a slice built by this function and grown by append in the loop)
			if x.eng.quickValid(set[r], mkCmp(">=", r, lh.preAlloc)) {
				// allocated inside the loop: everything that existed at loop entry keeps its contents
				continue
			}
			if x.eng.quickValid(set[r], mkCmp(">=", r, a0)) {
				bound = a0
				continue
			}
			// a reference read from a location the loop rewrites, which the loop invariant pins to
			// its pre-loop value: use that value
			rp := r
			for n2, pre := range lh.pre {
				if hv, ok2 := s.heap[n2]; ok2 && hv != pre {
					rp = replaceSym(rp, hv, pre)
				}
			}
			if rp != r && invariantTerm(rp, lh.ctr) && x.eng.quickValid(set[r], mkEq(r, rp)) {
				refs = append(refs, rp)
				continue
			}
			if os.Getenv("GOVC_DEBUG_FRAME") != "" {
				fmt.Fprintf(os.Stderr, "loopFrame: %s written at varying ref %s (candidate %s)\n", name, r, rp)
			}
			ok = false
			break
		}
		if !ok {
			continue
		}
		cur := s.heap[name]
		conds := []string{mkCmp("<", "r!fr", bound)}
		for _, r := range refs {
			conds = append(conds, mkNot(mkEq("r!fr", r)))
		}
		if s.wrefs != nil && !lh.hadStar[name] {
			// inside an enclosing recording run: this loop's havoc was noted as a write at unknown
			// references; now that they are known, tell the enclosing loop exactly
			if oset := s.wrefs[name]; oset != nil {
				delete(oset, "*")
				for _, r := range refs {
					oset[r] = s.pc
				}
				if bound == a0 {
					oset["fresh*"] = s.pc
				}
			}
		}
		s.assume(sf("(forall ((r!fr Int)) (! (=> %s (= (select %s r!fr) (select %s r!fr))) :pattern ((select %s r!fr))))",
			mkAnd(conds...), cur, lh.pre[name], cur))
	}
}

// havocLoop forgets everything the loop may write.
func (x *Exec) havocLoop(s *State, written map[string]bool, wrLocal map[types.Object]bool) *loopHavoc {
	lh := &loopHavoc{pre: map[string]string{}, preAlloc: s.allocPtr(), ctr: x.eng.ctr, hadStar: map[string]bool{}}
	for n, set := range s.wrefs {
		if _, ok := set["*"]; ok {
			lh.hadStar[n] = true
		}
	}
	// earlier iterations may have allocated: the allocation pointer only grows (do this before the
	// heap is havocked, so that havocked versions may contain references allocated in the loop)
	{
		cur := s.allocPtr()
		nxt := x.eng.fresh("alloc", sInt)
		s.pc = s.pc.push(mkCmp("<=", cur, nxt))
		s.heap["$alloc"] = nxt
	}
	for _, n := range sortedStrings(written) {
		if n == "$alloc" {
			continue
		}
		if strings.HasPrefix(n, "$ghost.") {
			// a ghost assigned by a call-site rule inside the loop: arbitrary at the loop head
			// (constrained only by the loop invariants)
			g := strings.TrimPrefix(n, "$ghost.")
			if _, ok := s.ghost[g]; ok {
				s.ghost[g] = Val{K: KInt, S: x.eng.fresh("ghost."+g, sInt)}
			}
			continue
		}
		if cur, ok := s.heap[n]; ok {
			if !strings.HasPrefix(n, "G$") {
				lh.pre[n] = cur
			}
			s.heapHavoc(n, x.eng.decl[cur])
		} else {
			srt, ok := x.eng.decl[n+"@0"]
			if !ok {
				// written only in the dry run with a fresh sort: find it
				for k, v := range x.eng.decl {
					if strings.HasPrefix(k, sanitize(n+"@")) {
						srt = v
						break
					}
				}
			}
			if srt != "" {
				if !strings.HasPrefix(n, "G$") {
					lh.pre[n] = s.heapGet(n, srt)
				}
				s.heapHavoc(n, srt)
			}
		}
	}
	var objs []types.Object
	for o := range wrLocal {
		objs = append(objs, o)
	}
	sortObjs(objs)
	for _, o := range objs {
		cur, ok := s.env[o]
		if !ok {
			continue // declared inside the loop
		}
		if x.isBoxed(o) || (cur.K == KArr && cur.Ref != "") {
			continue // lives in the heap; covered by heap havoc
		}
		if cur.K == KFunc && cur.Fn != nil {
			continue
		}
		s.env[o] = s.freshVal("lp."+o.Name(), o.Type())
	}
	return lh
}

// simplifyLocals replaces the offset of havocked slice variables by the literal 0 when the loop
// invariants entail it (keeps quantified reasoning over append-built slices free of offset arithmetic).
func (x *Exec) simplifyLocals(s *State, wrLocal map[types.Object]bool) {
	var objs []types.Object
	for o := range wrLocal {
		objs = append(objs, o)
	}
	sortObjs(objs)
	for _, o := range objs {
		v, ok := s.env[o]
		if !ok || v.K != KSlice || v.Off == "0" {
			continue
		}
		if x.eng.quickValid(s.pc, mkEq(v.Off, "0")) {
			v.Off = "0"
			s.env[o] = v
		}
	}
}

func sortObjs(objs []types.Object) {
	for i := 1; i < len(objs); i++ {
		for j := i; j > 0 && (objs[j].Pos() < objs[j-1].Pos() || (objs[j].Pos() == objs[j-1].Pos() && objs[j].Name() < objs[j-1].Name())); j-- {
			objs[j], objs[j-1] = objs[j-1], objs[j]
		}
	}
}

func (x *Exec) checkInvs(s *State, invs []*SpecExpr, kind string, pos token.Pos, key string, extra map[string]Val) {
	env := x.specEnvAt(s, pos)
	for k, v := range extra {
		env.vars[k] = v
	}
	for _, inv := range invs {
		if t, ok := x.tryInv(env, inv); ok {
			x.oblige(s, kind, pos, t, "loop "+key+" invariant: "+inv.Src)
		}
	}
}

// tryInv evaluates a loop invariant.  An invariant that no longer fits the code (it names a local that
// does not exist any more) is dropped with a note instead of making the whole function undecidable:
// whatever depended on it then fails as an ordinary obligation and is reported.
func (x *Exec) tryInv(env *SpecEnv, inv *SpecExpr) (term string, ok bool) {
	term, ok, unknown := x.tryInv1(env, inv)
	if ok || unknown == "" {
		return term, ok
	}
	// the invariant names a local that no longer exists.  If the loop is a `for v := ...; ...; ...` loop
	// with a single induction variable, the name is taken to mean that variable (a renamed loop
	// counter must not turn into an alarm); the invariant is then checked as usual, so a loop that
	// really changed still fails.
	if v, has := x.inductionVar(env); has {
		if t2, ok2, _ := x.tryInv1(env.with(unknown, v), inv); ok2 {
			x.eng.note("loop invariant: unknown name " + unknown + " read as the loop's induction variable")
			return t2, true
		}
	}
	// no reading of the name is available: the function is UNDECIDED (never "proved", never an alarm by
	// itself); the witness search then runs its executable contract on the real code
	panic(unsupported{"loop invariant `" + inv.Src + "`: unknown identifier " + unknown})
}

func (x *Exec) tryInv1(env *SpecEnv, inv *SpecExpr) (term string, ok bool, unknown string) {
	defer func() {
		if r := recover(); r != nil {
			if u, isU := r.(unsupported); isU {
				if i := strings.Index(u.msg, "unknown identifier "); i >= 0 {
					term, ok, unknown = "", false, strings.TrimSpace(u.msg[i+len("unknown identifier "):])
					return
				}
			}
			panic(r)
		}
	}()
	return env.evalBool(inv), true, ""
}

// inductionVar: the single variable defined in the init statement of the `for` loop whose body
// starts at env.pos.
func (x *Exec) inductionVar(env *SpecEnv) (Val, bool) {
	for st := range x.fn.loops {
		fs, isFor := st.(*ast.ForStmt)
		if !isFor || fs.Body == nil || fs.Body.Lbrace+1 != env.pos {
			continue
		}
		as, isAs := fs.Init.(*ast.AssignStmt)
		if !isAs || as.Tok != token.DEFINE || len(as.Lhs) != 1 {
			return Val{}, false
		}
		id, isId := as.Lhs[0].(*ast.Ident)
		if !isId {
			return Val{}, false
		}
		o, isVar := x.info().Defs[id].(*types.Var)
		if !isVar {
			return Val{}, false
		}
		if v, bound := env.s.env[o]; bound && !x.isBoxed(o) {
			return v, true
		}
		return Val{}, false
	}
	return Val{}, false
}

func (x *Exec) assumeInvs(s *State, invs []*SpecExpr, pos token.Pos, extra map[string]Val) {
	env := x.specEnvAt(s, pos)
	for k, v := range extra {
		env.vars[k] = v
	}
	for _, inv := range invs {
		if t, ok := x.tryInv(env, inv); ok {
			s.assume(t)
		}
	}
}

func (x *Exec) execFor(s *State, st *ast.ForStmt, label string) *State {
	if st.Init != nil {
		s = x.execStmt(s, st.Init)
		if s == nil {
			return nil
		}
	}
	invs, key := x.loopInvariants(st)
	bodyPos := st.Body.Lbrace + 1
	// invariants hold on entry
	x.checkInvs(s, invs, "inv-init", bodyPos, key, nil)
	// what does the loop write?
	dry := func(d *State) *State {
		tg := &target{label: label, isLoop: true}
		x.targets = append(x.targets, tg)
		var b *State = d
		if st.Cond != nil {
			b, _ = x.cond(d, st.Cond)
		}
		if b != nil {
			b = x.execBlock(b, st.Body.List)
		}
		outs := append([]*State{b}, tg.conts...)
		m := x.mergeStates(d.pc, outs)
		if m != nil && st.Post != nil {
			m = x.execStmt(m, st.Post)
		}
		return m
	}
	written, wrLocal := x.dryRun(s, dry)
	lh := x.havocLoop(s, written, wrLocal)
	x.assumeInvs(s, invs, bodyPos, nil)
	if len(invs) > 0 {
		x.simplifyLocals(s, wrLocal)
	}
	x.loopFrame(s, lh, dry)
	anc := s.pc
	tg := &target{label: label, isLoop: true}
	x.targets = append(x.targets, tg)
	var bodyS, exitS *State
	if st.Cond != nil {
		bodyS, exitS = x.cond(s, st.Cond)
	} else {
		bodyS = s
	}
	if bodyS != nil {
		end := x.execBlock(bodyS, st.Body.List)
		outs := append([]*State{end}, tg.conts...)
		if m := x.mergeStates(anc, outs); m != nil {
			if st.Post != nil {
				m = x.execStmt(m, st.Post)
			}
			if m != nil {
				x.checkInvs(m, invs, "inv-step", bodyPos, key, nil)
			}
		}
	}
	x.targets = x.targets[:len(x.targets)-1]
	exits := append([]*State{exitS}, tg.breaks...)
	return x.mergeStates(anc, exits)
}

func (x *Exec) execRange(s *State, st *ast.RangeStmt, label string) *State {
	xt := x.typeOf(st.X)
	intT := types.Typ[types.Int]
	invs, key := x.loopInvariants(st)
	bodyPos := st.Body.Lbrace + 1

	type iterKind int
	const (
		itSlice iterKind = iota
		itArray
		itInt
		itString
		itMap
		itChan
	)
	var kind iterKind
	var hdr Val
	var n string
	var elemT types.Type
	switch u := under(xt).(type) {
	case *types.Slice:
		kind, elemT = itSlice, u.Elem()
		hdr = x.eval(s, st.X)
		n = hdr.Len
	case *types.Array:
		kind, elemT = itArray, u.Elem()
		hdr = x.eval(s, st.X)
		n = numI(u.Len())
	case *types.Pointer:
		au, ok := under(u.Elem()).(*types.Array)
		if !ok {
			x.eng.unsupported(st.Pos(), "range over %s", xt)
		}
		kind, elemT = itArray, au.Elem()
		p := x.eval(s, st.X)
		hdr = s.loadPtr(u.Elem(), p.S)
		n = numI(au.Len())
	case *types.Basic:
		if u.Info()&types.IsInteger != 0 {
			kind = itInt
			hdr = x.eval(s, st.X)
			n = hdr.S
		} else {
			kind = itString
			hdr = x.eval(s, st.X)
			n = x.strLen(hdr)
		}
	case *types.Map:
		kind = itMap
		hdr = x.eval(s, st.X)
	case *types.Chan:
		kind = itChan
		hdr = x.eval(s, st.X)
	default:
		x.eng.unsupported(st.Pos(), "range over %s", xt)
	}

	// loop variables
	bindKV := func(b *State, k, v *Val) {
		set := func(e ast.Expr, val *Val) {
			if e == nil || val == nil {
				return
			}
			if id, ok := e.(*ast.Ident); ok && id.Name == "_" {
				return
			}
			if st.Tok == token.DEFINE {
				id := e.(*ast.Ident)
				if o, ok := x.info().Defs[id].(*types.Var); ok && o != nil {
					x.bindVar(b, o, x.convertTo(b, *val, o.Type(), id.Pos()))
				}
				return
			}
			x.assign(b, e, *val)
		}
		set(st.Key, k)
		set(st.Value, v)
	}

	counted := kind == itSlice || kind == itArray || kind == itInt || kind == itString
	idxVal := func(term string) Val {
		return Val{K: KInt, T: intT, S: term, Lo: big0, Hi: maxLen}
	}
	extraAt := func(term string) map[string]Val {
		return map[string]Val{"loopidx": idxVal(term)}
	}
	// for invariants, the key variable (if any) denotes the number of completed iterations
	bindIdxForInv := func(b *State, term string) {
		if !counted || kind == itString {
			return
		}
		if st.Key != nil && st.Tok == token.DEFINE {
			if id, ok := st.Key.(*ast.Ident); ok && id.Name != "_" {
				if o, ok := x.info().Defs[id].(*types.Var); ok && o != nil {
					b.env[o] = idxVal(term)
				}
			}
		}
	}

	// entry
	if counted {
		bindIdxForInv(s, "0")
		x.checkInvs(s, invs, "inv-init", bodyPos, key, extraAt("0"))
	} else {
		x.checkInvs(s, invs, "inv-init", bodyPos, key, nil)
	}

	runBody := func(b *State, ktermNow string, tg *target, rec bool) *State {
		var kv, vv *Val
		switch kind {
		case itSlice:
			k := idxVal(ktermNow)
			kv = &k
			if st.Value != nil {
				v := b.loadElem(elemT, hdr.Ref, mkAdd(hdr.Off, ktermNow))
				vv = &v
			}
		case itArray:
			k := idxVal(ktermNow)
			kv = &k
			if st.Value != nil {
				v := x.arrElem(b, under(types.NewArray(elemT, 0)).(*types.Array), hdr.S, ktermNow)
				v.T = elemT
				vv = &v
			}
		case itInt:
			k := Val{K: KInt, T: xt, S: ktermNow, Lo: big0, Hi: hdr.Hi}
			kv = &k
		case itString:
			// byte position ktermNow; rune value and width are abstract
			k := idxVal(ktermNow)
			kv = &k
			if st.Value != nil {
				x.eng.usedUF["gs.runeat"] = true
				r := Val{K: KInt, T: types.Typ[types.Int32], S: app("gs.runeat", hdr.S, ktermNow)}
				b.assume(mkAnd(mkCmp("<=", "0", r.S), mkCmp("<=", r.S, "1114111")))
				r.Lo, r.Hi = big0, big.NewInt(1114111)
				vv = &r
			}
		case itMap:
			mt := under(xt).(*types.Map)
			k := b.freshVal("mk", mt.Key())
			v, ok := x.mapLoad(b, xt, hdr.S, k)
			b.assume(ok)
			kv, vv = &k, &v
		case itChan:
			ct := under(xt).(*types.Chan)
			k := b.freshVal("cv", ct.Elem())
			kv = &k
		}
		bindKV(b, kv, vv)
		return x.execBlock(b, st.Body.List)
	}

	dry := func(d *State) *State {
		tg := &target{label: label, isLoop: true}
		x.targets = append(x.targets, tg)
		k := x.eng.fresh("k", sInt)
		if counted {
			d.assume(mkAnd(mkCmp("<=", "0", k), mkCmp("<", k, n)))
		}
		anc := d.pc
		end := runBody(d, k, tg, true)
		return x.mergeStates(anc, append([]*State{end}, tg.conts...))
	}
	written, wrLocal := x.dryRun(s, dry)
	// the loop variables themselves are re-bound each iteration
	lh := x.havocLoop(s, written, wrLocal)
	defer func() {}()

	var kterm string
	if counted {
		kterm = x.eng.fresh("iter", sInt)
		s.assume(mkAnd(mkCmp("<=", "0", kterm), mkCmp("<=", kterm, n)))
		bindIdxForInv(s, kterm)
		x.assumeInvs(s, invs, bodyPos, extraAt(kterm))
	} else {
		x.assumeInvs(s, invs, bodyPos, nil)
	}
	x.loopFrame(s, lh, dry)
	anc := s.pc
	tg := &target{label: label, isLoop: true}
	x.targets = append(x.targets, tg)

	var bodyS, exitS *State
	if counted {
		bodyS = s.clone()
		bodyS.assume(mkCmp("<", kterm, n))
		exitS = s
		exitS.assume(mkEq(kterm, n))
	} else {
		bodyS = s.clone()
		c := x.eng.fresh("more", sBool)
		bodyS.assume(c)
		exitS = s
		exitS.assume(mkNot(c))
	}
	end := runBody(bodyS, kterm, tg, false)
	outs := append([]*State{end}, tg.conts...)
	if m := x.mergeStates(anc, outs); m != nil {
		if counted {
			next := mkAdd(kterm, "1")
			if kind == itString {
				// a rune occupies 1..4 bytes
				w := x.eng.fresh("rw", sInt)
				m.assume(mkAnd(mkCmp("<=", "1", w), mkCmp("<=", w, "4"), mkCmp("<=", mkAdd(kterm, w), n)))
				next = mkAdd(kterm, w)
				x.eng.usedUF["gs.runelen"] = true
				m.assume(mkEq(w, app("gs.runelen", hdr.S, kterm)))
			}
			bindIdxForInv(m, next)
			x.checkInvs(m, invs, "inv-step", bodyPos, key, extraAt(next))
		} else {
			x.checkInvs(m, invs, "inv-step", bodyPos, key, nil)
		}
	}
	x.targets = x.targets[:len(x.targets)-1]
	exits := append([]*State{exitS}, tg.breaks...)
	return x.mergeStates(anc, exits)
}
