package main

import (
	"go/ast"
	"go/token"
	"go/types"
	"sort"
	"strings"
)

// ---- merging ------------------------------------------------------------

// mergeStates joins states that forked from a common ancestor path condition.
// Differing variables / heap versions become fresh constants constrained by
// (suffix_i => v = v_i); the merged path condition is anc ∧ (∨ suffix_i).
func (x *Exec) mergeStates(anc *pcNode, states []*State) *State {
	var live []*State
	for _, s := range states {
		if s != nil && !s.dead {
			live = append(live, s)
		}
	}
	if len(live) == 0 {
		return nil
	}
	if len(live) == 1 {
		return live[0]
	}
	// find the deepest common ancestor of all pcs (anc may be too deep if states assumed things unconditionally)
	anc = commonAncestor(live)
	conds := make([]string, len(live))
	var pathDefs []string
	for i, s := range live {
		conds[i] = mkAnd(s.pc.factsSince(anc)...)
		if len(conds[i]) > 64 {
			// name the suffix to keep merged formulas small
			c := x.eng.fresh("path", sBool)
			pathDefs = append(pathDefs, mkEq(c, conds[i]))
			conds[i] = c
		}
	}
	m := live[0].clone()
	m.pc = anc
	for _, d := range pathDefs {
		m.pc = m.pc.push(d)
	}
	m.pc = m.pc.push(mkOr(conds...))
	// env
	objs := map[types.Object]bool{}
	for _, s := range live {
		for o := range s.env {
			objs[o] = true
		}
	}
	var olist []types.Object
	for o := range objs {
		olist = append(olist, o)
	}
	sort.Slice(olist, func(i, j int) bool {
		if olist[i].Pos() != olist[j].Pos() {
			return olist[i].Pos() < olist[j].Pos()
		}
		return olist[i].Name() < olist[j].Name()
	})
	for _, o := range olist {
		vals := make([]Val, len(live))
		ok := true
		for i, s := range live {
			v, has := s.env[o]
			if !has {
				ok = false
				break
			}
			vals[i] = v
		}
		if !ok {
			delete(m.env, o)
			continue
		}
		m.env[o] = x.mergeVals(m, o.Name(), vals, conds)
	}
	// heap
	names := map[string]bool{}
	for _, s := range live {
		for n := range s.heap {
			names[n] = true
		}
	}
	var nlist []string
	for n := range names {
		nlist = append(nlist, n)
	}
	sort.Strings(nlist)
	for _, n := range nlist {
		terms := make([]string, len(live))
		same := true
		for i, s := range live {
			t, has := s.heap[n]
			if !has && n != "$alloc" && (s.hvAll || len(s.lazyRefs) > 0) {
				// never touched on this path after a havoc: unknown there, not the entry version
				for _, s2 := range live {
					if t2, ok := s2.heap[n]; ok {
						t, has = s.heapGet(n, x.eng.decl[t2]), true
						break
					}
				}
			}
			if !has {
				if n == "$alloc" {
					t = x.eng.declare("alloc@0", sInt)
				} else {
					t = n + "@0"
					if _, declared := x.eng.decl[t]; !declared {
						// sort unknown here: find from another state's term
						for _, s2 := range live {
							if t2, ok := s2.heap[n]; ok {
								x.eng.declare(t, x.eng.decl[t2])
								break
							}
						}
					}
				}
			}
			terms[i] = t
			if t != terms[0] {
				same = false
			}
		}
		if same {
			m.heap[n] = terms[0]
			continue
		}
		srt := x.eng.decl[terms[0]]
		c := x.eng.fresh(n+"@m", srt)
		for i := range live {
			m.pc = m.pc.push(mkImp(conds[i], mkEq(c, terms[i])))
		}
		m.heap[n] = c
	}
	for _, s := range live {
		if s.hvAll {
			m.hvAll = true
		}
		for _, r := range s.lazyRefs {
			dup := false
			for _, r2 := range m.lazyRefs {
				if r2 == r {
					dup = true
				}
			}
			if !dup {
				m.lazyRefs = append(m.lazyRefs[:len(m.lazyRefs):len(m.lazyRefs)], r)
			}
		}
	}
	// guarded-state snapshots: a path that never took the lock has the entry value
	onames := map[string]bool{}
	for _, s := range live {
		for n := range s.oldHeap {
			onames[n] = true
		}
	}
	if len(onames) > 0 {
		m.oldHeap = map[string]string{}
		for _, n := range sortedStrings(onames) {
			terms := make([]string, len(live))
			same := true
			for i, s := range live {
				t, has := s.oldHeap[n]
				if !has {
					t = n + "@0"
					if top := x.eng.curTop; top != nil && top.entry != nil {
						if t2, ok := top.entry.heap[n]; ok {
							t = t2
						}
					}
					if _, declared := x.eng.decl[t]; !declared {
						for _, s2 := range live {
							if t2, ok := s2.oldHeap[n]; ok {
								x.eng.declare(t, x.eng.decl[t2])
								break
							}
						}
					}
				}
				terms[i] = t
				if t != terms[0] {
					same = false
				}
			}
			if same {
				m.oldHeap[n] = terms[0]
				continue
			}
			c := x.eng.fresh(n+"@om", x.eng.decl[terms[0]])
			for i := range live {
				m.pc = m.pc.push(mkImp(conds[i], mkEq(c, terms[i])))
			}
			m.oldHeap[n] = c
		}
	}
	// contexts known to be done: merged as Boolean terms
	dkeys := map[string]bool{}
	for _, s := range live {
		for k := range s.ctxDone {
			dkeys[k] = true
		}
	}
	if len(dkeys) > 0 {
		m.ctxDone = map[string]string{}
		for _, k := range sortedStrings(dkeys) {
			terms := make([]string, len(live))
			same := true
			for i, s := range live {
				terms[i] = s.ctxDoneTerm(k)
				if terms[i] != terms[0] {
					same = false
				}
			}
			if same {
				m.ctxDone[k] = terms[0]
				continue
			}
			c := x.eng.fresh("ctxdone", sBool)
			for i := range live {
				m.pc = m.pc.push(mkImp(conds[i], mkEq(c, terms[i])))
			}
			m.ctxDone[k] = c
		}
	}
	// held locks: intersection
	for k := range m.held {
		for _, s := range live {
			if !s.held[k] {
				delete(m.held, k)
			}
		}
	}
	// ghost
	for k := range m.ghost {
		vals := make([]Val, len(live))
		ok := true
		for i, s := range live {
			v, has := s.ghost[k]
			if !has {
				ok = false
				break
			}
			vals[i] = v
		}
		if ok {
			m.ghost[k] = x.mergeVals(m, "ghost."+k, vals, conds)
		} else {
			delete(m.ghost, k)
		}
	}
	for _, s := range live[1:] {
		for k, v := range s.written {
			if m.written != nil {
				m.written[k] = v
			}
		}
		for k, v := range s.wrLocal {
			if m.wrLocal != nil {
				m.wrLocal[k] = v
			}
		}
		for k, set := range s.wrefs {
			if m.wrefs != nil {
				if m.wrefs[k] == nil {
					m.wrefs[k] = map[string]*pcNode{}
				}
				for r, pc := range set {
					m.wrefs[k][r] = pc
				}
			}
		}
		for r, v := range s.roRefs {
			m.roRefs[r] = v
		}
		if s.hv > m.hv {
			m.hv = s.hv
		}
	}
	x.eng.hvCtr++
	m.hv = x.eng.hvCtr
	m.memo = map[ast.Expr]Val{}
	m.guard = nil
	return m
}

func commonAncestor(states []*State) *pcNode {
	anc := states[0].pc
	for _, s := range states[1:] {
		a, b := anc, s.pc
		for a != b {
			an, bn := 0, 0
			if a != nil {
				an = a.n
			}
			if b != nil {
				bn = b.n
			}
			if an >= bn {
				a = a.prev
			} else {
				b = b.prev
			}
		}
		anc = a
	}
	return anc
}

func (x *Exec) mergeVals(m *State, name string, vals []Val, conds []string) Val {
	first := vals[0]
	same := true
	for _, v := range vals[1:] {
		if !sameVal(first, v) {
			same = false
			break
		}
	}
	if same {
		return first
	}
	for _, v := range vals[1:] {
		if v.K != first.K {
			// incompatible shapes (e.g. func values): lose the value
			if first.T != nil {
				return m.freshVal("m."+name, first.T)
			}
			return Val{}
		}
	}
	switch first.K {
	case KStruct, KTuple:
		out := first
		out.Fs = make([]Val, len(first.Fs))
		for i := range first.Fs {
			sub := make([]Val, len(vals))
			for j, v := range vals {
				sub[j] = v.Fs[i]
			}
			out.Fs[i] = x.mergeVals(m, name, sub, conds)
		}
		return out
	case KFunc:
		// different closures on different paths: unknown function value
		return Val{K: KFunc, T: first.T, S: x.eng.fresh("fn", sInt)}
	}
	fl := make([][]string, len(vals))
	for i, v := range vals {
		fl[i] = flatten(v)
	}
	ls := leavesOfVal(first)
	terms := make([]string, len(fl[0]))
	for k := range terms {
		allSame := true
		for i := range vals {
			if fl[i][k] != fl[0][k] {
				allSame = false
			}
		}
		if allSame {
			terms[k] = fl[0][k]
			continue
		}
		c := x.eng.fresh("m."+name, ls[k])
		for i := range vals {
			m.pc = m.pc.push(mkImp(conds[i], mkEq(c, fl[i][k])))
		}
		terms[k] = c
	}
	out := rebuild(first, terms)
	// bounds: union
	if first.K == KInt {
		out.Lo, out.Hi = first.Lo, first.Hi
		for _, v := range vals[1:] {
			if out.Lo == nil || v.Lo == nil {
				out.Lo = nil
			} else {
				out.Lo = bmin(out.Lo, v.Lo)
			}
			if out.Hi == nil || v.Hi == nil {
				out.Hi = nil
			} else {
				out.Hi = bmax(out.Hi, v.Hi)
			}
		}
	}
	return out
}

func leavesOfVal(v Val) []string {
	switch v.K {
	case KSlice:
		return []string{sInt, sInt, sInt, sInt}
	case KIface:
		return []string{sInt, sInt}
	case KBool:
		return []string{sBool}
	case KStr:
		return []string{sStr}
	case KArr:
		if v.T != nil {
			return []string{scalarSort(v.T)}
		}
		return []string{sAI}
	case KSeq:
		return []string{sAI, sInt}
	}
	return []string{sInt}
}

func rebuild(like Val, terms []string) Val {
	out := like
	switch like.K {
	case KSlice:
		out.Ref, out.Off, out.Len, out.Cap = terms[0], terms[1], terms[2], terms[3]
	case KIface:
		out.Tag, out.Dat = terms[0], terms[1]
	default:
		out.S = terms[0]
	}
	return out
}

func sameVal(a, b Val) bool {
	if a.K != b.K {
		return false
	}
	switch a.K {
	case KStruct, KTuple:
		if len(a.Fs) != len(b.Fs) {
			return false
		}
		for i := range a.Fs {
			if !sameVal(a.Fs[i], b.Fs[i]) {
				return false
			}
		}
		return true
	case KSlice:
		return a.Ref == b.Ref && a.Off == b.Off && a.Len == b.Len && a.Cap == b.Cap
	case KIface:
		return a.Tag == b.Tag && a.Dat == b.Dat
	case KFunc:
		if a.Fn != nil || b.Fn != nil {
			return a.Fn != nil && b.Fn != nil && a.Fn.Lit == b.Fn.Lit && a.Fn.Obj == b.Fn.Obj
		}
		return a.S == b.S
	case KArr:
		return a.S == b.S && a.Ref == b.Ref
	}
	return a.S == b.S
}

// ---- statements -----------------------------------------------------------

// execBlock runs statements; returns the normal continuation state or nil.
func (x *Exec) execBlock(s *State, stmts []ast.Stmt) *State {
	for i, st := range stmts {
		if s == nil || s.dead {
			return nil
		}
		// "L: stmt ... goto L" (backward goto to a label of this block): the rest of the block is the
		// body of a loop in which goto L is "continue"; invariants are declared as "loop L invariant"
		if ls, ok := st.(*ast.LabeledStmt); ok && isPlainLabeled(ls) && hasGoto(stmts[i:], ls.Label.Name) {
			body := append([]ast.Stmt{ls.Stmt}, stmts[i+1:]...)
			body = append(body, &ast.BranchStmt{Tok: token.BREAK, TokPos: ls.Pos()})
			loop := x.fn.gotoLoops[ls]
			if loop == nil {
				loop = &ast.ForStmt{For: ls.Pos(), Body: &ast.BlockStmt{Lbrace: ls.Colon, List: body, Rbrace: stmts[len(stmts)-1].End()}}
				if x.fn.gotoLoops == nil {
					x.fn.gotoLoops = map[*ast.LabeledStmt]*ast.ForStmt{}
				}
				x.fn.gotoLoops[ls] = loop
				x.fn.loops[loop] = "goto|" + ls.Label.Name
			}
			return x.execFor(s, loop, ls.Label.Name)
		}
		s = x.execStmt(s, st)
	}
	return s
}

func isPlainLabeled(ls *ast.LabeledStmt) bool {
	switch ls.Stmt.(type) {
	case *ast.ForStmt, *ast.RangeStmt, *ast.SwitchStmt, *ast.TypeSwitchStmt, *ast.SelectStmt:
		return false
	}
	return true
}

func hasGoto(stmts []ast.Stmt, label string) bool {
	found := false
	for _, st := range stmts {
		ast.Inspect(st, func(n ast.Node) bool {
			if _, isLit := n.(*ast.FuncLit); isLit {
				return false
			}
			if b, ok := n.(*ast.BranchStmt); ok && b.Tok == token.GOTO && b.Label != nil && b.Label.Name == label {
				found = true
			}
			return !found
		})
	}
	return found
}

func (x *Exec) findTarget(label string, needLoop bool) *target {
	for i := len(x.targets) - 1; i >= 0; i-- {
		t := x.targets[i]
		if label != "" {
			if t.label == label {
				return t
			}
			continue
		}
		if needLoop && !t.isLoop {
			continue
		}
		return t
	}
	return nil
}

func (x *Exec) execStmt(s *State, st ast.Stmt) *State {
	s.memo = map[ast.Expr]Val{}
	switch st := st.(type) {
	case *ast.BlockStmt:
		return x.execBlock(s, st.List)
	case *ast.EmptyStmt:
		return s
	case *ast.ExprStmt:
		x.eval(s, st.X)
		if s.dead {
			return nil
		}
		return s
	case *ast.DeclStmt:
		gd := st.Decl.(*ast.GenDecl)
		if gd.Tok == token.VAR {
			for _, sp := range gd.Specs {
				vs := sp.(*ast.ValueSpec)
				x.declVars(s, vs)
			}
		}
		return s
	case *ast.AssignStmt:
		x.execAssign(s, st)
		if s.dead {
			return nil
		}
		return s
	case *ast.IncDecStmt:
		cur := x.eval(s, st.X)
		op := token.ADD
		if st.Tok == token.DEC {
			op = token.SUB
		}
		nv := x.arith(s, op, cur, constInt(cur.T, big1), x.typeOf(st.X), st.Pos())
		x.assign(s, st.X, nv)
		return s
	case *ast.ReturnStmt:
		x.execReturn(s, st)
		return nil
	case *ast.IfStmt:
		return x.execIf(s, st)
	case *ast.ForStmt:
		return x.execFor(s, st, "")
	case *ast.RangeStmt:
		return x.execRange(s, st, "")
	case *ast.LabeledStmt:
		switch inner := st.Stmt.(type) {
		case *ast.ForStmt:
			return x.execFor(s, inner, st.Label.Name)
		case *ast.RangeStmt:
			return x.execRange(s, inner, st.Label.Name)
		case *ast.SwitchStmt:
			return x.execSwitch(s, inner, st.Label.Name)
		case *ast.TypeSwitchStmt:
			return x.execTypeSwitch(s, inner, st.Label.Name)
		case *ast.SelectStmt:
			return x.execSelect(s, inner, st.Label.Name)
		}
		return x.execStmt(s, st.Stmt)
	case *ast.BranchStmt:
		label := ""
		if st.Label != nil {
			label = st.Label.Name
		}
		switch st.Tok {
		case token.BREAK:
			t := x.findTarget(label, false)
			if t == nil {
				x.eng.unsupported(st.Pos(), "break without target")
			}
			t.breaks = append(t.breaks, s)
			return nil
		case token.CONTINUE:
			t := x.findTarget(label, true)
			if t == nil {
				x.eng.unsupported(st.Pos(), "continue without target")
			}
			t.conts = append(t.conts, s)
			return nil
		case token.FALLTHROUGH:
			x.eng.unsupported(st.Pos(), "fallthrough")
		case token.GOTO:
			// backward goto to a label that heads a goto-loop (see execBlock)
			if t := x.findTarget(label, true); t != nil && label != "" {
				t.conts = append(t.conts, s)
				return nil
			}
			x.eng.unsupported(st.Pos(), "goto %s (only backward gotos to a label of an enclosing block are supported)", label)
		}
		return nil
	case *ast.SwitchStmt:
		return x.execSwitch(s, st, "")
	case *ast.TypeSwitchStmt:
		return x.execTypeSwitch(s, st, "")
	case *ast.DeferStmt:
		x.execDefer(s, st)
		return s
	case *ast.GoStmt:
		x.execGo(s, st)
		return s
	case *ast.SendStmt:
		x.chanSend(s, st)
		return s
	case *ast.SelectStmt:
		return x.execSelect(s, st, "")
	}
	x.eng.unsupported(st.Pos(), "statement %T", st)
	return nil
}

func (x *Exec) declVars(s *State, vs *ast.ValueSpec) {
	if len(vs.Values) == 0 {
		for _, n := range vs.Names {
			o := x.info().Defs[n]
			if o == nil {
				continue
			}
			x.bindVar(s, o.(*types.Var), zeroVal(o.Type()))
		}
		return
	}
	if len(vs.Values) == 1 && len(vs.Names) > 1 {
		tv := x.eval(s, vs.Values[0])
		for i, n := range vs.Names {
			if o := x.info().Defs[n]; o != nil {
				x.bindVar(s, o.(*types.Var), x.convertTo(s, tv.Fs[i], o.Type(), n.Pos()))
			}
		}
		return
	}
	for i, n := range vs.Names {
		v := x.eval(s, vs.Values[i])
		if o := x.info().Defs[n]; o != nil {
			x.bindVar(s, o.(*types.Var), x.convertTo(s, v, o.Type(), n.Pos()))
		}
	}
}

// bindVar creates (or re-creates) the storage of a local variable.
func (x *Exec) bindVar(s *State, o *types.Var, v Val) {
	if s.wrLocal != nil {
		s.wrLocal[o] = true
	}
	if x.isBoxed(o) {
		r := s.alloc("box." + o.Name())
		s.storePtr(o.Type(), r, v)
		s.env[o] = Val{K: KInt, T: types.NewPointer(o.Type()), S: r}
		if x.isPrivateBoxed(o) {
			s.privRefs = append(s.privRefs[:len(s.privRefs):len(s.privRefs)], r)
		}
		return
	}
	if au, ok := under(o.Type()).(*types.Array); ok && x.isSlicedArr(o) && v.K == KArr {
		r := s.alloc("arr." + o.Name())
		s.setBacking(au.Elem(), r, []string{v.S})
		s.env[o] = Val{K: KArr, T: o.Type(), Ref: r}
		return
	}
	s.env[o] = v
}

func (x *Exec) execAssign(s *State, st *ast.AssignStmt) {
	if st.Tok != token.ASSIGN && st.Tok != token.DEFINE {
		// op-assign
		cur := x.eval(s, st.Lhs[0])
		r := x.eval(s, st.Rhs[0])
		op := map[token.Token]token.Token{
			token.ADD_ASSIGN: token.ADD, token.SUB_ASSIGN: token.SUB, token.MUL_ASSIGN: token.MUL,
			token.QUO_ASSIGN: token.QUO, token.REM_ASSIGN: token.REM, token.AND_ASSIGN: token.AND,
			token.OR_ASSIGN: token.OR, token.XOR_ASSIGN: token.XOR, token.SHL_ASSIGN: token.SHL,
			token.SHR_ASSIGN: token.SHR, token.AND_NOT_ASSIGN: token.AND_NOT,
		}[st.Tok]
		var nv Val
		if cur.K == KStr {
			nv = x.strConcat(s, cur, r, x.typeOf(st.Lhs[0]))
		} else if cur.K == KFloat {
			nv = Val{K: KFloat, T: cur.T, S: x.eng.fresh("flt", sInt)}
		} else {
			nv = x.arith(s, op, cur, r, x.typeOf(st.Lhs[0]), st.Pos())
		}
		x.assign(s, st.Lhs[0], nv)
		return
	}
	var vals []Val
	if len(st.Rhs) == 1 && len(st.Lhs) > 1 {
		// tuple: call, map index, type assertion, channel receive
		switch r := unparen(st.Rhs[0]).(type) {
		case *ast.CallExpr:
			tv := x.eval(s, r)
			if s.dead {
				return
			}
			vals = tv.Fs
		case *ast.IndexExpr:
			m := x.eval(s, r.X)
			mt := x.typeOf(r.X)
			k := x.convertTo(s, x.eval(s, r.Index), under(mt).(*types.Map).Key(), r.Pos())
			v, ok := x.mapLoad(s, mt, m.S, k)
			vals = []Val{v, boolVal(ok)}
		case *ast.TypeAssertExpr:
			v, ok := x.typeAssert(s, r, true)
			vals = []Val{v, boolVal(ok)}
		case *ast.UnaryExpr:
			v := x.chanRecv(s, r, true)
			vals = v.Fs
		default:
			x.eng.unsupported(st.Pos(), "tuple assignment from %T", r)
		}
	} else {
		for _, r := range st.Rhs {
			vals = append(vals, x.eval(s, r))
			if s.dead {
				return
			}
		}
	}
	for i, l := range st.Lhs {
		if i >= len(vals) {
			x.eng.unsupported(st.Pos(), "assignment count mismatch")
		}
		if st.Tok == token.DEFINE {
			if id, ok := l.(*ast.Ident); ok {
				if id.Name == "_" {
					continue
				}
				if o, ok := x.info().Defs[id].(*types.Var); ok && o != nil {
					x.bindVar(s, o, x.convertTo(s, vals[i], o.Type(), id.Pos()))
					continue
				}
			}
		}
		x.assign(s, l, vals[i])
	}
}

// ---- lvalues ---------------------------------------------------------------

func (x *Exec) assign(s *State, l ast.Expr, v Val) {
	l = unparen(l)
	lt := x.typeOf(l)
	if lt != nil {
		v = x.convertTo(s, v, lt, l.Pos())
	}
	switch l := l.(type) {
	case *ast.Ident:
		if l.Name == "_" {
			return
		}
		o, _ := x.info().Uses[l].(*types.Var)
		if o == nil {
			o, _ = x.info().Defs[l].(*types.Var)
		}
		if o == nil {
			x.eng.unsupported(l.Pos(), "assignment to %s", l.Name)
		}
		x.writeVar(s, o, v)
	case *ast.StarExpr:
		p := x.eval(s, l.X)
		x.nilCheck(s, p.S, l.Pos(), "nil pointer dereference")
		s.storePtr(lt, p.S, v)
	case *ast.SelectorExpr:
		if id, ok := l.X.(*ast.Ident); ok {
			if _, isPkg := x.info().Uses[id].(*types.PkgName); isPkg {
				o := x.info().Uses[l.Sel].(*types.Var)
				x.writeGlobal(s, o, v)
				return
			}
		}
		sel := x.info().Selections[l]
		steps := x.fieldSteps(x.typeOf(l.X), sel)
		x.assignField(s, l.X, steps, v, l.Pos())
	case *ast.IndexExpr:
		bt := x.typeOf(l.X)
		switch u := under(bt).(type) {
		case *types.Slice:
			b := x.eval(s, l.X)
			i := x.eval(s, l.Index)
			x.boundsCheck(s, i.S, b.Len, l.Pos(), "index")
			x.checkRO(s, b.Ref, l.Pos())
			s.storeElem(u.Elem(), b.Ref, mkAdd(b.Off, i.S), v)
		case *types.Array:
			i := x.eval(s, l.Index)
			x.boundsCheck(s, i.S, numI(u.Len()), l.Pos(), "array index")
			// sliced-array variables live in a backing store
			if id, ok := unparen(l.X).(*ast.Ident); ok {
				if o, ok := x.info().Uses[id].(*types.Var); ok && x.isSlicedArr(o) {
					if ev, ok := s.env[o]; ok && ev.Ref != "" {
						s.storeElem(u.Elem(), ev.Ref, i.S, v)
						return
					}
				}
			}
			arr := x.eval(s, l.X)
			na := Val{K: KArr, T: bt, S: s.define("arr", arrSort(scalarSort(u.Elem())), mkSto(arr.S, i.S, v.S))}
			x.assign(s, l.X, na)
		case *types.Pointer:
			au := under(u.Elem()).(*types.Array)
			p := x.eval(s, l.X)
			x.nilCheck(s, p.S, l.Pos(), "nil array pointer")
			i := x.eval(s, l.Index)
			x.boundsCheck(s, i.S, numI(au.Len()), l.Pos(), "array index")
			arr := s.loadPtr(u.Elem(), p.S)
			s.storePtr(u.Elem(), p.S, Val{K: KArr, T: u.Elem(), S: mkSto(arr.S, i.S, v.S)})
		case *types.Map:
			m := x.eval(s, l.X)
			k := x.convertTo(s, x.eval(s, l.Index), u.Key(), l.Pos())
			x.nilCheck(s, m.S, l.Pos(), "assignment to entry in nil map")
			x.mapStore(s, bt, m.S, k, v)
		default:
			x.eng.unsupported(l.Pos(), "index assignment into %s", bt)
		}
	default:
		x.eng.unsupported(l.Pos(), "assignment target %T", l)
	}
}

func (x *Exec) checkRO(s *State, ref string, pos token.Pos) {
	if what, ok := s.roRefs[ref]; ok {
		x.eng.unsupported(pos, "write through a slice of array value %s (modelled as a read-only copy)", what)
	}
}

func (x *Exec) writeVar(s *State, o *types.Var, v Val) {
	if s.wrLocal != nil {
		s.wrLocal[o] = true
	}
	if cur, ok := s.env[o]; ok {
		if x.isBoxed(o) {
			s.storePtr(o.Type(), cur.S, v)
			return
		}
		if cur.K == KArr && cur.Ref != "" {
			au := under(o.Type()).(*types.Array)
			s.setBacking(au.Elem(), cur.Ref, []string{v.S})
			return
		}
		s.env[o] = v
		return
	}
	if o.Parent() != nil && o.Pkg() != nil && o.Parent() == o.Pkg().Scope() {
		x.writeGlobal(s, o, v)
		return
	}
	s.env[o] = v
}

// assignField stores v into base.<steps>.
func (x *Exec) assignField(s *State, baseExpr ast.Expr, steps []fstep, v Val, pos token.Pos) {
	// find the last deref step: everything before it is evaluated, the rest is a leaf path
	last := -1
	for i, st := range steps {
		if st.deref {
			last = i
		}
	}
	if last >= 0 {
		base := x.eval(s, baseExpr)
		cur := x.selectField(s, base, steps[:last], pos)
		x.nilCheck(s, cur.S, pos, "nil pointer dereference (field "+steps[last].name+")")
		path := ""
		for _, st := range steps[last:] {
			path += "." + st.name
		}
		s.storeField(steps[last].owner, cur.S, path, steps[len(steps)-1].typ, v)
		return
	}
	// value struct: functional update of the base and assign back
	base := x.eval(s, baseExpr)
	nb := updateField(base, steps, v)
	x.assign(s, baseExpr, nb)
}

func updateField(base Val, steps []fstep, v Val) Val {
	if len(steps) == 0 {
		return v
	}
	idx, _ := fieldIndex(steps[0].owner, steps[0].name)
	out := base
	out.Fs = append([]Val(nil), base.Fs...)
	out.Fs[idx] = updateField(base.Fs[idx], steps[1:], v)
	return out
}

// ---- control flow -----------------------------------------------------------

// cond evaluates a boolean condition with short-circuit structure, returning
// the states in which it is true / false.
func (x *Exec) cond(s *State, e ast.Expr) (t, f *State) {
	e = unparen(e)
	switch b := e.(type) {
	case *ast.BinaryExpr:
		if b.Op == token.LAND {
			anc := s.pc
			t1, f1 := x.cond(s, b.X)
			var t2, f2 *State
			if t1 != nil {
				t2, f2 = x.cond(t1, b.Y)
			}
			return t2, x.mergeStates(anc, []*State{f1, f2})
		}
		if b.Op == token.LOR {
			anc := s.pc
			t1, f1 := x.cond(s, b.X)
			var t2, f2 *State
			if f1 != nil {
				t2, f2 = x.cond(f1, b.Y)
			}
			return x.mergeStates(anc, []*State{t1, t2}), f2
		}
	case *ast.UnaryExpr:
		if b.Op == token.NOT {
			t, f := x.cond(s, b.X)
			return f, t
		}
	}
	v := x.eval(s, e)
	if s.dead {
		return nil, nil
	}
	if v.S == "true" {
		return s, nil
	}
	if v.S == "false" {
		return nil, s
	}
	ts := s.clone()
	ts.assume(v.S)
	fs := s
	fs.assume(mkNot(v.S))
	return ts, fs
}

func (x *Exec) execIf(s *State, st *ast.IfStmt) *State {
	if st.Init != nil {
		s = x.execStmt(s, st.Init)
		if s == nil {
			return nil
		}
	}
	anc := s.pc
	ts, fs := x.cond(s, st.Cond)
	var outs []*State
	if ts != nil {
		outs = append(outs, x.execBlock(ts, st.Body.List))
	}
	if fs != nil {
		if st.Else != nil {
			outs = append(outs, x.execStmt(fs, st.Else))
		} else {
			outs = append(outs, fs)
		}
	}
	return x.mergeStates(anc, outs)
}

func (x *Exec) execSwitch(s *State, st *ast.SwitchStmt, label string) *State {
	if st.Init != nil {
		s = x.execStmt(s, st.Init)
		if s == nil {
			return nil
		}
	}
	anc := s.pc
	var tag *Val
	var tagT types.Type
	if st.Tag != nil {
		v := x.eval(s, st.Tag)
		tag = &v
		tagT = x.typeOf(st.Tag)
	}
	tg := &target{label: label}
	x.targets = append(x.targets, tg)
	var outs []*State
	cur := s
	var def *ast.CaseClause
	for _, c := range st.Body.List {
		cc := c.(*ast.CaseClause)
		if cc.List == nil {
			def = cc
			continue
		}
		if cur == nil {
			break
		}
		// condition: any of the case expressions
		var matches []*State
		for _, ce := range cc.List {
			if cur == nil {
				break
			}
			var ts, fs *State
			if tag != nil {
				cv := x.eval(cur, ce)
				eq := x.equal(cur, *tag, cv, tagT, x.typeOf(ce), ce.Pos())
				if eq == "true" {
					ts, fs = cur, nil
				} else if eq == "false" {
					ts, fs = nil, cur
				} else {
					ts = cur.clone()
					ts.assume(eq)
					fs = cur
					fs.assume(mkNot(eq))
				}
			} else {
				ts, fs = x.cond(cur, ce)
			}
			if ts != nil {
				matches = append(matches, ts)
			}
			cur = fs
		}
		if m := x.mergeStates(anc, matches); m != nil {
			if hasFallthrough(cc) {
				x.eng.unsupported(cc.Pos(), "fallthrough")
			}
			outs = append(outs, x.execBlock(m, cc.Body))
		}
	}
	if cur != nil {
		if def != nil {
			outs = append(outs, x.execBlock(cur, def.Body))
		} else {
			outs = append(outs, cur)
		}
	}
	x.targets = x.targets[:len(x.targets)-1]
	outs = append(outs, tg.breaks...)
	return x.mergeStates(anc, outs)
}

func hasFallthrough(cc *ast.CaseClause) bool {
	if n := len(cc.Body); n > 0 {
		if b, ok := cc.Body[n-1].(*ast.BranchStmt); ok && b.Tok == token.FALLTHROUGH {
			return true
		}
	}
	return false
}

func (x *Exec) execTypeSwitch(s *State, st *ast.TypeSwitchStmt, label string) *State {
	if st.Init != nil {
		s = x.execStmt(s, st.Init)
		if s == nil {
			return nil
		}
	}
	anc := s.pc
	var ta *ast.TypeAssertExpr
	var bindName *ast.Ident
	switch a := st.Assign.(type) {
	case *ast.ExprStmt:
		ta = a.X.(*ast.TypeAssertExpr)
	case *ast.AssignStmt:
		ta = a.Rhs[0].(*ast.TypeAssertExpr)
		bindName = a.Lhs[0].(*ast.Ident)
	}
	_ = bindName
	iv := x.eval(s, ta.X)
	tg := &target{label: label}
	x.targets = append(x.targets, tg)
	var outs []*State
	cur := s
	var def *ast.CaseClause
	for _, c := range st.Body.List {
		cc := c.(*ast.CaseClause)
		if cc.List == nil {
			def = cc
			continue
		}
		if cur == nil {
			break
		}
		var matches []*State
		var single types.Type
		for _, te := range cc.List {
			if cur == nil {
				break
			}
			var condT string
			tt := x.typeOf(te)
			if tv, ok := x.info().Types[te]; ok && tv.IsNil() {
				condT = mkEq(iv.Tag, "0")
				tt = nil
			} else {
				condT = x.hasType(cur, iv, tt)
			}
			if len(cc.List) == 1 {
				single = tt
			}
			ts := cur.clone()
			ts.assume(condT)
			cur.assume(mkNot(condT))
			matches = append(matches, ts)
		}
		m := x.mergeStates(anc, matches)
		if m == nil {
			continue
		}
		if o := x.info().Implicits[cc]; o != nil {
			bv := iv
			if single != nil && len(cc.List) == 1 {
				bv = x.unbox(m, iv, single)
			}
			x.bindVar(m, o.(*types.Var), bv)
		}
		outs = append(outs, x.execBlock(m, cc.Body))
	}
	if cur != nil {
		if def != nil {
			if o := x.info().Implicits[def]; o != nil {
				x.bindVar(cur, o.(*types.Var), iv)
			}
			outs = append(outs, x.execBlock(cur, def.Body))
		} else {
			outs = append(outs, cur)
		}
	}
	x.targets = x.targets[:len(x.targets)-1]
	outs = append(outs, tg.breaks...)
	return x.mergeStates(anc, outs)
}

// hasType: condition that interface value iv has dynamic type t (or implements interface t).
func (x *Exec) hasType(s *State, iv Val, t types.Type) string {
	if _, isIface := under(t).(*types.Interface); isIface {
		// implements: uninterpreted predicate over the tag; nil never implements
		x.eng.usedUF["implements"] = true
		id := numI(int64(x.eng.typeTag(t)))
		return mkAnd(mkNot(mkEq(iv.Tag, "0")), app("implements", iv.Tag, id))
	}
	return mkEq(iv.Tag, numI(int64(x.eng.typeTag(t))))
}

// unbox extracts the concrete value of type t from an interface value.
func (x *Exec) unbox(s *State, iv Val, t types.Type) Val {
	if _, isIface := under(t).(*types.Interface); isIface {
		iv.T = t
		return iv
	}
	switch under(t).(type) {
	case *types.Pointer, *types.Map, *types.Chan:
		v := Val{K: KInt, T: t, S: iv.Dat}
		return v
	case *types.Signature:
		return Val{K: KFunc, T: t, S: iv.Dat}
	}
	return s.loadPtr(t, iv.Dat)
}

func (x *Exec) typeAssert(s *State, e *ast.TypeAssertExpr, commaOk bool) (Val, string) {
	iv := x.eval(s, e.X)
	t := x.typeOf(e.Type)
	c := x.hasType(s, iv, t)
	if !commaOk {
		x.oblige(s, "assert", e.Pos(), c, "type assertion to "+types.TypeString(t, nil)+" holds")
		s.assume(c)
		return x.unbox(s, iv, t), "true"
	}
	// v, ok := e.(T): v is the zero value when !ok
	ok := s.define("ok", sBool, c)
	un := x.unbox(s, iv, t)
	z := zeroVal(t)
	uf, zf := flatten(un), flatten(z)
	terms := make([]string, len(uf))
	for i := range uf {
		terms[i] = mkIte(ok, uf[i], zf[i])
	}
	v, _ := unflatten(t, terms)
	if v.K == KInt {
		v.Lo, v.Hi = nil, nil
		v = s.annotate(v)
	}
	return v, ok
}

func (x *Exec) execReturn(s *State, st *ast.ReturnStmt) {
	var vals []Val
	res := x.fn.sig.Results()
	if len(st.Results) == 0 {
		for _, r := range x.fn.results {
			vals = append(vals, x.readVar(s, r, st.Pos()))
		}
	} else if len(st.Results) == 1 && res.Len() > 1 {
		tv := x.eval(s, st.Results[0])
		if s.dead {
			return
		}
		for i, v := range tv.Fs {
			vals = append(vals, x.convertTo(s, v, res.At(i).Type(), st.Pos()))
		}
	} else {
		for i, r := range st.Results {
			v := x.eval(s, r)
			if s.dead {
				return
			}
			vals = append(vals, x.convertTo(s, v, res.At(i).Type(), r.Pos()))
		}
	}
	// named results receive the values (visible to deferred closures)
	if len(st.Results) > 0 {
		for i, r := range x.fn.results {
			if r.Name() != "" && r.Name() != "_" {
				x.writeVar(s, r, vals[i])
			}
		}
	}
	x.rets = append(x.rets, &retState{s: s, vals: vals, ord: x.fn.retOrd[st], pos: st.Pos()})
}

// ---- helpers ------------------------------------------------------------------

func isTerminating(name string) bool {
	return strings.HasSuffix(name, ".Fatal") || strings.HasSuffix(name, ".Fatalf") || name == "os.Exit"
}
