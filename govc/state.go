package main

import (
	"go/ast"
	"go/token"
	"go/types"
	"math/big"
	"sort"
	"strings"
)

// pcNode is a persistent list of SMT assertions (the path condition, in SSA
// form: definitions are equalities over fresh constants).
type pcNode struct {
	prev *pcNode
	fact string
	n    int
}

func (p *pcNode) push(f string) *pcNode {
	n := 1
	if p != nil {
		n = p.n + 1
	}
	return &pcNode{prev: p, fact: f, n: n}
}

// factsSince returns the facts added after anc (oldest first).
func (p *pcNode) factsSince(anc *pcNode) []string {
	var out []string
	for q := p; q != nil && q != anc; q = q.prev {
		out = append(out, q.fact)
	}
	for i, j := 0, len(out)-1; i < j; i, j = i+1, j-1 {
		out[i], out[j] = out[j], out[i]
	}
	return out
}

type ctlKind int

const (
	ctlNone ctlKind = iota
	ctlReturn
	ctlBreak
	ctlContinue
	ctlPanic
	ctlGoto
)

type deferred struct {
	run func(*State)
}

// State is one symbolic execution state.
type State struct {
	eng  *Engine
	env  map[types.Object]Val
	heap map[string]string // heap array name -> current term (a declared constant)
	hv   int               // heap version (for pure interface-method UFs)
	// hvAll: an unknown call havocked the whole heap on this path: arrays first touched afterwards are
	// unknown too (not their entry version).  lazyRefs: references (objects behind interface values named
	// in a modifies clause) whose cells are unknown in every pointer-cell array, including ones
	// first touched later.
	hvAll    bool
	lazyRefs []string
	// privRefs: cells of address-taken locals whose address provably never reaches unknown code
	// (only passed to calls with contracts / intrinsics, not captured by escaping closures):
	// unknown calls cannot change them
	privRefs []string
	pc   *pcNode
	held map[string]bool // mutexes held (by printed expression)
	// oldHeap: guarded heap arrays as they were when this path first acquired their lock; old() of
	// guarded state refers to these (other lock holders may have changed it since function entry)
	oldHeap map[string]string

	written map[string]bool // heap arrays written (recording for loops / frames)
	wrLocal map[types.Object]bool
	wrefs   map[string]map[string]*pcNode // recording: references at which each heap array was written ("*" = unknown), with the path condition at the write
	allocs  *[]string                  // recording: references allocated

	ghost map[string]Val // ghost variables
	memo  map[ast.Expr]Val

	guard []string // guards for short-circuit evaluation (obligations are implied by them)
	dead  bool

	defers []*deferred
	roRefs map[string]string // backing stores that are read-only copies of array values
	ginit  map[*types.Var]bool
	ctxDone map[string]string // contexts (by expression) -> Bool term: this path received from their Done channel
}

func (s *State) clone() *State {
	c := *s
	c.env = make(map[types.Object]Val, len(s.env))
	for k, v := range s.env {
		c.env[k] = v
	}
	c.heap = make(map[string]string, len(s.heap))
	for k, v := range s.heap {
		c.heap[k] = v
	}
	if s.oldHeap != nil {
		c.oldHeap = map[string]string{}
		for k, v := range s.oldHeap {
			c.oldHeap[k] = v
		}
	}
	c.held = map[string]bool{}
	for k, v := range s.held {
		c.held[k] = v
	}
	c.ghost = map[string]Val{}
	for k, v := range s.ghost {
		c.ghost[k] = v
	}
	c.memo = map[ast.Expr]Val{}
	for k, v := range s.memo {
		c.memo[k] = v
	}
	// recording sets are per path (a write on a path that leaves a loop does not count for the loop)
	if s.written != nil {
		c.written = make(map[string]bool, len(s.written))
		for k, v := range s.written {
			c.written[k] = v
		}
	}
	if s.wrLocal != nil {
		c.wrLocal = make(map[types.Object]bool, len(s.wrLocal))
		for k, v := range s.wrLocal {
			c.wrLocal[k] = v
		}
	}
	if s.wrefs != nil {
		c.wrefs = make(map[string]map[string]*pcNode, len(s.wrefs))
		for k, set := range s.wrefs {
			ns := make(map[string]*pcNode, len(set))
			for r, pc := range set {
				ns[r] = pc
			}
			c.wrefs[k] = ns
		}
	}
	c.guard = append([]string(nil), s.guard...)
	c.defers = append([]*deferred(nil), s.defers...)
	c.roRefs = map[string]string{}
	for k, v := range s.roRefs {
		c.roRefs[k] = v
	}
	if s.ctxDone != nil {
		c.ctxDone = map[string]string{}
		for k, v := range s.ctxDone {
			c.ctxDone[k] = v
		}
	}
	if s.ginit != nil {
		c.ginit = map[*types.Var]bool{}
		for k, v := range s.ginit {
			c.ginit[k] = v
		}
	}
	return &c
}

func (s *State) assume(f string) {
	if f == "true" || f == "" {
		return
	}
	if len(s.guard) > 0 {
		f = mkImp(mkAnd(s.guard...), f)
	}
	// skip facts repeated shortly before (typing facts of re-loaded fields)
	for q, i := s.pc, 0; q != nil && i < 24; q, i = q.prev, i+1 {
		if q.fact == f {
			return
		}
	}
	s.pc = s.pc.push(f)
}

// ---- fresh names / declarations ------------------------------------------

func (e *Engine) fresh(prefix, sort string) string {
	e.ctr++
	name := sanitize(prefix) + "!" + itoa(e.ctr)
	e.decl[name] = sort
	e.declOrder = append(e.declOrder, name)
	return name
}

func (e *Engine) declare(name, sort string) string {
	if _, ok := e.decl[name]; !ok {
		e.decl[name] = sort
		e.declOrder = append(e.declOrder, name)
	}
	return name
}

func itoa(n int) string {
	return new(big.Int).SetInt64(int64(n)).String()
}

// define introduces a fresh constant equal to term (keeps terms small).
func (s *State) define(prefix, sort, term string) string {
	if len(term) < 48 {
		return term
	}
	c := s.eng.fresh(prefix, sort)
	s.assume(mkEq(c, term))
	s.eng.defs[c] = term
	return c
}

// ---- heap ------------------------------------------------------------------

// heap array naming:
//   H$<type>$<leafpath>   pointer-to-<type> cells      sort (Array Int S)
//   M$<type>$<leafpath>   slice backing stores         sort (Array Int (Array Int S))
//   K$<k>$<v>$<leaf>      map contents                 sort (Array Int (Array KS S))

func (s *State) heapGet(name, sort string) string {
	if t, ok := s.heap[name]; ok {
		return t
	}
	var c string
	if s.hvAll && !s.eng.immutableArray(name) {
		c = s.eng.fresh(name+"@h", sort)
		s.eng.typingAxiom(c, name, s.allocPtr())
	} else {
		c = s.eng.declare(name+"@0", sort)
		s.eng.typingAxiom(c, name, s.eng.declare("alloc@0", sInt))
	}
	s.heap[name] = c
	if len(s.lazyRefs) > 0 && strings.HasPrefix(name, "H$") && strings.HasPrefix(sort, "(Array Int ") {
		el := sort[len("(Array Int ") : len(sort)-1]
		t := c
		for _, r := range s.lazyRefs {
			t = mkSto(t, r, s.eng.fresh("hv", el))
		}
		c2 := s.eng.fresh(name+"@", sort)
		s.pc = s.pc.push(mkEq(c2, t))
		s.eng.typingAxiom(c2, name, s.allocPtr())
		s.heap[name] = c2
		return c2
	}
	return c
}

// heapSet installs a new version of a heap array. ref (optional) is the reference (outer index)
// at which the array was changed; without it the write is to an unknown place.
func (s *State) heapSet(name, sort, term string, ref ...string) {
	c := s.eng.fresh(name+"@", sort)
	s.pc = s.pc.push(mkEq(c, term)) // definitions are unconditional
	s.heap[name] = c
	s.eng.hvCtr++
	s.hv = s.eng.hvCtr
	s.noteWrite(name, ref...)
}

func (s *State) noteWrite(name string, ref ...string) {
	if s.written != nil {
		s.written[name] = true
	}
	if s.wrefs != nil {
		set := s.wrefs[name]
		if set == nil {
			set = map[string]*pcNode{}
			s.wrefs[name] = set
		}
		if len(ref) == 0 {
			set["*"] = s.pc
		}
		for _, r := range ref {
			set[r] = s.pc
		}
	}
}

// ctxDoneTerm: Bool term saying that this path received from the Done channel of the context
// named by the expression.
func (s *State) ctxDoneTerm(k string) string {
	if t, ok := s.ctxDone[k]; ok {
		return t
	}
	return "false"
}

func (s *State) heapHavoc(name, sort string) {
	c := s.eng.fresh(name+"@h", sort)
	s.heap[name] = c
	s.eng.typingAxiom(c, name, s.allocPtr())
	s.eng.hvCtr++
	s.hv = s.eng.hvCtr
	s.noteWrite(name)
}

// rangeFact returns the typing fact for a scalar term of Go type t.
func rangeFact(t types.Type, term string) string {
	if t == nil {
		return "true"
	}
	if lo, hi, ok := intRange(t); ok {
		if _, isLit := isNumLit(term); isLit {
			return "true"
		}
		return mkAnd(mkCmp("<=", num(lo), term), mkCmp("<=", term, num(hi)))
	}
	switch under(t).(type) {
	case *types.Pointer, *types.Map, *types.Chan:
		return mkCmp("<=", "0", term)
	}
	return "true"
}

var maxLen = new(big.Int).Lsh(big.NewInt(1), 48)

func sliceFact(v Val) string {
	return mkAnd(
		mkCmp("<=", "0", v.Off), mkCmp("<=", "0", v.Len), mkCmp("<=", v.Len, v.Cap),
		mkCmp("<=", v.Cap, num(maxLen)), mkCmp("<=", v.Off, num(maxLen)),
		mkCmp("<=", "0", v.Ref),
		mkImp(mkEq(v.Ref, "0"), mkAnd(mkEq(v.Cap, "0"), mkEq(v.Off, "0"))))
}

// typingFacts lists the facts that hold for any well-typed value v.
func typingFacts(v Val) []string {
	var out []string
	switch v.K {
	case KInt:
		if f := rangeFact(v.T, v.S); f != "true" {
			out = append(out, f)
		}
	case KStr:
	case KSlice:
		out = append(out, sliceFact(v))
	case KIface:
		out = append(out, mkCmp("<=", "0", v.Tag), mkCmp("<=", "0", v.Dat), mkEq(mkEq(v.Tag, "0"), mkEq(v.Dat, "0")))
	case KStruct, KTuple:
		for _, f := range v.Fs {
			out = append(out, typingFacts(f)...)
		}
	}
	return out
}

// freshVal creates an unconstrained (but well-typed) value of type t.
func (s *State) freshVal(prefix string, t types.Type) Val {
	ls := leavesOf(t)
	terms := make([]string, len(ls))
	for i, l := range ls {
		terms[i] = s.eng.fresh(prefix+l.path, l.sort)
	}
	v, _ := unflatten(t, terms)
	s.assumeTyped(v)
	v = s.annotate(v)
	return v
}

// annotate attaches static bounds to integer leaves and slice lengths.
func (s *State) annotate(v Val) Val {
	switch v.K {
	case KInt:
		if v.Lo == nil {
			if lo, hi, ok := intRange(v.T); ok {
				v.Lo, v.Hi = lo, hi
			}
		}
	case KStruct, KTuple:
		for i := range v.Fs {
			v.Fs[i] = s.annotate(v.Fs[i])
		}
	}
	return v
}

// loadPtr reads the value of type t stored at pointer p.
func (s *State) loadPtr(t types.Type, p string) Val {
	key := typeKey(t)
	ls := leavesOf(t)
	terms := make([]string, len(ls))
	for i, l := range ls {
		s.eng.leafTypes["H$"+key+"$"+l.path] = l.typ
		terms[i] = mkSel(s.heapGet("H$"+key+"$"+l.path, arrSort(l.sort)), p)
	}
	v, _ := unflatten(t, terms)
	s.assumeTyped(v)
	return s.annotate(v)
}

func (s *State) storePtr(t types.Type, p string, v Val) {
	key := typeKey(t)
	ls := leavesOf(t)
	terms := flatten(v)
	for i, l := range ls {
		name := "H$" + key + "$" + l.path
		srt := arrSort(l.sort)
		s.heapSet(name, srt, mkSto(s.heapGet(name, srt), p, terms[i]), p)
	}
}

// loadField / storeField access one field (by leaf-path prefix) of *T.
func (s *State) loadField(t types.Type, p string, fieldPath string, ft types.Type) Val {
	key := typeKey(t)
	ls := leavesOf(ft)
	terms := make([]string, len(ls))
	for i, l := range ls {
		s.eng.leafTypes["H$"+key+"$"+fieldPath+l.path] = l.typ
		terms[i] = mkSel(s.heapGet("H$"+key+"$"+fieldPath+l.path, arrSort(l.sort)), p)
	}
	v, _ := unflatten(ft, terms)
	s.assumeTyped(v)
	return s.annotate(v)
}

func (s *State) storeField(t types.Type, p string, fieldPath string, ft types.Type, v Val) {
	key := typeKey(t)
	ls := leavesOf(ft)
	terms := flatten(v)
	for i, l := range ls {
		name := "H$" + key + "$" + fieldPath + l.path
		srt := arrSort(l.sort)
		s.heapSet(name, srt, mkSto(s.heapGet(name, srt), p, terms[i]), p)
	}
}

// loadElem reads element idx (absolute index into the backing store) of a slice with element type et.
func (s *State) loadElem(et types.Type, ref, idx string) Val {
	key := typeKey(et)
	ls := leavesOf(et)
	terms := make([]string, len(ls))
	for i, l := range ls {
		s.eng.leafTypes["M$"+key+"$"+l.path] = l.typ
		terms[i] = mkSel(mkSel(s.heapGet("M$"+key+"$"+l.path, arrSort(arrSort(l.sort))), ref), idx)
	}
	v, _ := unflatten(et, terms)
	s.assumeTyped(v)
	return s.annotate(v)
}

func (s *State) storeElem(et types.Type, ref, idx string, v Val) {
	key := typeKey(et)
	ls := leavesOf(et)
	terms := flatten(v)
	for i, l := range ls {
		name := "M$" + key + "$" + l.path
		srt := arrSort(arrSort(l.sort))
		cur := s.heapGet(name, srt)
		s.heapSet(name, srt, mkSto(cur, ref, mkSto(mkSel(cur, ref), idx, terms[i])), ref)
	}
}

// backing returns the (Array Int S) backing store term(s) of a slice's element leaves.
func (s *State) backing(et types.Type, ref string) []string {
	key := typeKey(et)
	ls := leavesOf(et)
	out := make([]string, len(ls))
	for i, l := range ls {
		s.eng.leafTypes["M$"+key+"$"+l.path] = l.typ
		out[i] = mkSel(s.heapGet("M$"+key+"$"+l.path, arrSort(arrSort(l.sort))), ref)
	}
	return out
}

func (s *State) setBacking(et types.Type, ref string, arrs []string) {
	key := typeKey(et)
	ls := leavesOf(et)
	for i, l := range ls {
		name := "M$" + key + "$" + l.path
		srt := arrSort(arrSort(l.sort))
		s.heapSet(name, srt, mkSto(s.heapGet(name, srt), ref, arrs[i]), ref)
	}
}

// alloc returns a fresh non-nil reference distinct from every existing one.
func (s *State) alloc(prefix string) string {
	r := s.eng.fresh(prefix, sInt)
	cur := s.allocPtr()
	s.assume(mkEq(r, cur))
	nxt := s.eng.fresh("alloc", sInt)
	s.pc = s.pc.push(mkEq(nxt, mkAdd(cur, "1")))
	s.heap["$alloc"] = nxt
	if s.allocs != nil {
		*s.allocs = append(*s.allocs, r)
	}
	return r
}

func (s *State) allocPtr() string {
	if t, ok := s.heap["$alloc"]; ok {
		return t
	}
	c := s.eng.declare("alloc@0", sInt)
	s.heap["$alloc"] = c
	return c
}

// isAllocated: every pre-existing reference is below the allocation pointer.
func (s *State) assumeAllocated(ref string) {
	s.assume(mkCmp("<", ref, s.eng.declare("alloc@0", sInt)))
}

func sortedKeys(m map[string]string) []string {
	var ks []string
	for k := range m {
		ks = append(ks, k)
	}
	sort.Strings(ks)
	return ks
}

func posStr(fset *token.FileSet, p token.Pos) string {
	if !p.IsValid() {
		return "?"
	}
	pp := fset.Position(p)
	f := pp.Filename
	f = strings.TrimPrefix(f, repoRoot()+"/")
	return f + ":" + itoa(pp.Line)
}

// assumeTyped adds the typing facts of v and the fact that every reference in
// it is already allocated (below the current allocation pointer).
func (s *State) assumeTyped(v Val) {
	if s.eng.specQuiet > 0 {
		return
	}
	for _, f := range typingFacts(v) {
		s.assume(f)
	}
	for _, r := range refsOf(v) {
		if _, lit := isNumLit(r); !lit {
			s.assume(mkCmp("<", r, s.allocPtr()))
		}
	}
}

func refsOf(v Val) []string {
	switch v.K {
	case KInt:
		switch under(v.T).(type) {
		case *types.Pointer, *types.Map, *types.Chan:
			return []string{v.S}
		}
	case KSlice:
		return []string{v.Ref}
	case KIface:
		return []string{v.Dat}
	case KStruct, KTuple:
		var out []string
		for _, f := range v.Fs {
			out = append(out, refsOf(f)...)
		}
		return out
	}
	return nil
}

// typingAxiom records that every cell of a heap array version holds a value of its leaf type
// (well-typed heap). The axiom is emitted with every obligation that mentions the symbol.
func (e *Engine) typingAxiom(sym, name, allocBound string) {
	if _, done := e.symAxioms[sym]; done {
		return
	}
	t := e.leafTypes[name]
	isRef := strings.HasSuffix(name, "^ref") || strings.HasSuffix(name, "^dat")
	if t != nil {
		switch under(t).(type) {
		case *types.Pointer, *types.Map, *types.Chan:
			isRef = true
		}
	}
	if isRef {
		// well-formed heap: every reference stored in (this version of) the heap existed when the
		// version was created, i.e. lies below the allocation pointer of that moment
		switch {
		case strings.HasPrefix(name, "M$"):
			e.symAxioms[sym] = []string{sf("(forall ((r!t Int) (i!t Int)) (! (and (<= 0 (select (select %s r!t) i!t)) (< (select (select %s r!t) i!t) %s)) :pattern ((select (select %s r!t) i!t))))", sym, sym, allocBound, sym)}
		case strings.HasPrefix(name, "H$"):
			e.symAxioms[sym] = []string{sf("(forall ((r!t Int)) (! (and (<= 0 (select %s r!t)) (< (select %s r!t) %s)) :pattern ((select %s r!t))))", sym, sym, allocBound, sym)}
		}
		return
	}
	if t == nil {
		return
	}
	lo, hi, isInt := intRange(t)
	if !isInt {
		return
	}
	switch {
	case strings.HasPrefix(name, "M$"):
		e.symAxioms[sym] = []string{sf("(forall ((r!t Int) (i!t Int)) (! (and (<= %s (select (select %s r!t) i!t)) (<= (select (select %s r!t) i!t) %s)) :pattern ((select (select %s r!t) i!t))))", num(lo), sym, sym, num(hi), sym)}
	case strings.HasPrefix(name, "H$"):
		e.symAxioms[sym] = []string{sf("(forall ((r!t Int)) (! (and (<= %s (select %s r!t)) (<= (select %s r!t) %s)) :pattern ((select %s r!t))))", num(lo), sym, sym, num(hi), sym)}
	}
}

// innerTypingAxiom: a fresh (Array Int S) holding elements of Go type t.
func (e *Engine) innerTypingAxiom(sym string, t types.Type) {
	lo, hi, isInt := intRange(t)
	if !isInt || t == nil {
		return
	}
	e.symAxioms[sym] = []string{sf("(forall ((i!t Int)) (! (and (<= %s (select %s i!t)) (<= (select %s i!t) %s)) :pattern ((select %s i!t))))", num(lo), sym, sym, num(hi), sym)}
}
