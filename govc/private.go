package main

import (
	"go/ast"
	"go/token"
	"go/types"
)

// isPrivateBoxed: o is an address-taken local of the function being executed whose address never
// reaches unknown code.
func (x *Exec) isPrivateBoxed(o types.Object) bool {
	for f := x.fn; f != nil; f = f.parent {
		if f.boxed[o] {
			if f.privBoxed == nil {
				f.privBoxed = x.eng.findPrivateBoxed(f)
			}
			return f.privBoxed[o]
		}
	}
	return false
}

// findPrivateBoxed: boxed locals of f such that (a) every &x occurs as a direct argument of a call whose
// callee has a contract (declared, extern, pure) or is an intrinsic, or as the receiver of such a
// method call, and (b) x is not mentioned inside a function literal other than one that is deferred or
// called on the spot (such a literal runs in this activation; any other may be run by unknown code).
func (e *Engine) findPrivateBoxed(f *FnCtx) map[types.Object]bool {
	out := map[types.Object]bool{}
	info := f.pkg.TypesInfo
	for o := range f.boxed {
		out[o] = true
	}
	okCallee := func(call *ast.CallExpr) bool {
		var id *ast.Ident
		switch fn := unparen(call.Fun).(type) {
		case *ast.Ident:
			id = fn
		case *ast.SelectorExpr:
			id = fn.Sel
		}
		if id == nil {
			return false
		}
		fo, ok := info.Uses[id].(*types.Func)
		if !ok {
			return false
		}
		fo = fo.Origin()
		if _, ok := intrinsics[externKey(fo)]; ok {
			return true
		}
		return e.contractFor(fo) != nil
	}
	rootVar := func(ex ast.Expr) types.Object {
		for {
			switch t := ex.(type) {
			case *ast.ParenExpr:
				ex = t.X
			case *ast.SelectorExpr:
				ex = t.X
			case *ast.IndexExpr:
				ex = t.X
			case *ast.Ident:
				if v, ok := info.Uses[t].(*types.Var); ok {
					return v
				}
				return nil
			default:
				return nil
			}
		}
	}
	// (a) address-of uses
	var stack []ast.Node
	ast.Inspect(f.body, func(n ast.Node) bool {
		if n == nil {
			stack = stack[:len(stack)-1]
			return true
		}
		stack = append(stack, n)
		u, ok := n.(*ast.UnaryExpr)
		if !ok || u.Op != token.AND {
			return true
		}
		o := rootVar(u.X)
		if o == nil || !out[o] {
			return true
		}
		ok2 := false
		if len(stack) >= 2 {
			if call, isCall := stack[len(stack)-2].(*ast.CallExpr); isCall {
				for _, a := range call.Args {
					if a == ast.Expr(u) && okCallee(call) {
						ok2 = true
					}
				}
			}
		}
		if !ok2 {
			out[o] = false
		}
		return true
	})
	// (b) captures by escaping literals
	var walk func(n ast.Node, inEscaping bool)
	walk = func(n ast.Node, inEscaping bool) {
		ast.Inspect(n, func(m ast.Node) bool {
			switch t := m.(type) {
			case *ast.DeferStmt:
				if lit, ok := unparen(t.Call.Fun).(*ast.FuncLit); ok {
					walk(lit.Body, inEscaping)
					for _, a := range t.Call.Args {
						walk(a, inEscaping)
					}
					return false
				}
			case *ast.CallExpr:
				if lit, ok := unparen(t.Fun).(*ast.FuncLit); ok {
					walk(lit.Body, inEscaping)
					for _, a := range t.Args {
						walk(a, inEscaping)
					}
					return false
				}
			case *ast.FuncLit:
				walk(t.Body, true)
				return false
			case *ast.Ident:
				if inEscaping {
					if v, ok := info.Uses[t].(*types.Var); ok && out[v] {
						out[v] = false
					}
				}
			}
			return true
		})
	}
	walk(f.body, false)
	return out
}
