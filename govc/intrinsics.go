package main

// Library functions whose Go semantics the engine knows natively (they need
// access to argument *expressions*, e.g. &x.f for atomics, or to the lock set).
// Everything else about the environment is an assumed contract in /verif/specs.

import (
	"go/ast"
	"go/token"
	"go/types"
	"strings"
)

type intrinsic func(x *Exec, s *State, e *ast.CallExpr, c callee) (Val, bool)

var intrinsics map[string]intrinsic

func init() {
	intrinsics = map[string]intrinsic{}
	for _, t := range []string{"sync.Mutex", "sync.RWMutex"} {
		intrinsics[t+".Lock"] = lockOp(true)
		intrinsics[t+".RLock"] = lockOp(true)
		intrinsics[t+".Unlock"] = lockOp(false)
		intrinsics[t+".RUnlock"] = lockOp(false)
	}
	for _, n := range []string{"sort.Slice", "sort.SliceStable", "slices.SortFunc", "slices.SortStableFunc", "slices.Sort"} {
		intrinsics[n] = sortSlice
	}
	intrinsics["context.Context.Err"] = func(x *Exec, s *State, e *ast.CallExpr, c callee) (Val, bool) {
		x.eval(s, c.recvX)
		r := s.freshVal("ctxerr", x.typeOf(e))
		if d := s.ctxDoneTerm(exprString(c.recvX)); d != "false" {
			s.assume(mkImp(d, mkNot(mkEq(r.Tag, "0")))) // Err is non-nil once Done is closed
		}
		// documented contract of Context.Err: nil, Canceled or DeadlineExceeded
		if n, ok := x.typeOf(c.recvX).(*types.Named); ok && n.Obj().Pkg() != nil && n.Obj().Pkg().Path() == "context" {
			sc := n.Obj().Pkg().Scope()
			cv, _ := sc.Lookup("Canceled").(*types.Var)
			dv, _ := sc.Lookup("DeadlineExceeded").(*types.Var)
			if cv != nil && dv != nil {
				cn, dl := x.readGlobal(s, cv), x.readGlobal(s, dv)
				s.assume(mkOr(mkEq(r.Tag, "0"),
					mkAnd(mkEq(r.Tag, cn.Tag), mkEq(r.Dat, cn.Dat)),
					mkAnd(mkEq(r.Tag, dl.Tag), mkEq(r.Dat, dl.Dat))))
				x.eng.note("Context.Err returns nil, context.Canceled or context.DeadlineExceeded (documented contract)")
			}
		}
		return r, true
	}
	intrinsics["context.Cause"] = func(x *Exec, s *State, e *ast.CallExpr, c callee) (Val, bool) {
		if len(e.Args) != 1 {
			return Val{}, false
		}
		cv := x.eval(s, e.Args[0])
		r := s.freshVal("ctxcause", x.typeOf(e))
		if _, ok := x.eng.db.UFs["ctxcauseT"]; ok && cv.K == KIface {
			// Cause is a function of the context
			x.eng.usedUF["ctxcauseT"], x.eng.usedUF["ctxcauseD"] = true, true
			s.assume(mkEq(r.Tag, app("ctxcauseT", cv.Tag, cv.Dat)))
			s.assume(mkEq(r.Dat, app("ctxcauseD", cv.Tag, cv.Dat)))
		}
		if d := s.ctxDoneTerm(exprString(e.Args[0])); d != "false" {
			s.assume(mkImp(d, mkNot(mkEq(r.Tag, "0")))) // non-nil once Done is closed
		}
		return r, true
	}
	intrinsics["errors.As"] = errorsAs
	intrinsics["github.com/go-faster/errors.As"] = errorsAs
	for _, n := range []string{"Add", "Done", "Wait"} {
		intrinsics["sync.WaitGroup."+n] = noop
	}
	// sync/atomic functions on addresses
	for _, ty := range []string{"Int32", "Int64", "Uint32", "Uint64", "Uintptr"} {
		intrinsics["sync/atomic.Add"+ty] = atomicAddr("add")
		intrinsics["sync/atomic.Load"+ty] = atomicAddr("load")
		intrinsics["sync/atomic.Store"+ty] = atomicAddr("store")
		intrinsics["sync/atomic.Swap"+ty] = atomicAddr("swap")
		intrinsics["sync/atomic.CompareAndSwap"+ty] = atomicAddr("cas")
	}
	// typed atomics (sync/atomic and go.uber.org/atomic): the value is modelled as a scalar
	for _, pk := range []string{"sync/atomic", "go.uber.org/atomic"} {
		for _, ty := range []string{"Int32", "Int64", "Uint32", "Uint64", "Bool", "Uintptr", "Duration"} {
			for _, op := range []string{"Load", "Store", "Add", "Sub", "Inc", "Dec", "Swap", "CompareAndSwap", "CAS", "Toggle"} {
				intrinsics[pk+"."+ty+"."+op] = atomicTyped(op)
			}
		}
	}
}

// sortSlice: sort.Slice / sort.SliceStable / slices.SortFunc ... permute the elements of their
// slice argument in place. Modelled as: the elements in [off, off+len) are replaced by a permutation
// image of the old ones (every new element is one of the old elements); nothing about the order is
// assumed, so whatever is proved afterwards holds for every comparison function.
func sortSlice(x *Exec, s *State, e *ast.CallExpr, c callee) (Val, bool) {
	at := x.typeOf(e.Args[0])
	st, ok := under(at).(*types.Slice)
	if !ok {
		return Val{}, false
	}
	v := x.eval(s, e.Args[0])
	// the comparison closure is not executed (assumed effect-free)
	x.eng.note("sort functions permute their slice argument; the comparison function is assumed effect-free and is not executed")
	x.checkRO(s, v.Ref, e.Pos())
	et := st.Elem()
	key := typeKey(et)
	x.eng.ctr++
	perm := "perm!" + itoa(x.eng.ctr)
	x.eng.dynUF[perm] = &UFDecl{Name: perm, Args: []string{sInt}, Ret: sInt}
	for _, l := range leavesOf(et) {
		name := "M$" + key + "$" + l.path
		srt := arrSort(arrSort(l.sort))
		cur := s.heapGet(name, srt)
		old := mkSel(cur, v.Ref)
		na := x.eng.fresh("sorted", arrSort(l.sort))
		x.eng.innerTypingAxiom(na, l.typ)
		j := "j!s"
		lo, hi := v.Off, mkAdd(v.Off, v.Len)
		s.assume(sf("(forall ((%s Int)) (! (ite (and (<= %s %s) (< %s %s)) (and (<= %s (%s %s)) (< (%s %s) %s) (= (select %s %s) (select %s (%s %s)))) (= (select %s %s) (select %s %s))) :pattern ((select %s %s))))",
			j, lo, j, j, hi, lo, perm, j, perm, j, hi, na, j, old, perm, j, na, j, old, j, na, j))
		s.heapSet(name, srt, mkSto(cur, v.Ref, na), v.Ref)
	}
	return Val{K: KTuple}, true
}

// errorsAs: errors.As(err, &target) either returns false, or stores a non-nil value of target's
// type (found in err's chain) into target and returns true. Which error is found is not modelled.
func errorsAs(x *Exec, s *State, e *ast.CallExpr, c callee) (Val, bool) {
	u, ok := unparen(e.Args[1]).(*ast.UnaryExpr)
	if !ok || u.Op != token.AND {
		return Val{}, false
	}
	errV := x.eval(s, e.Args[0])
	tt := x.typeOf(u.X)
	okv := s.freshVal("as.ok", types.Typ[types.Bool])
	// a nil error never matches
	s.assume(mkImp(mkEq(errV.Tag, "0"), mkNot(okv.S)))
	nv := s.freshVal("as.target", tt)
	cur := x.eval(s, u.X)
	// target is written only on success
	cf, nf := flatten(cur), flatten(nv)
	terms := make([]string, len(cf))
	for i := range cf {
		terms[i] = mkIte(okv.S, nf[i], cf[i])
	}
	res, _ := unflatten(tt, terms)
	switch nv.K {
	case KInt:
		if _, isPtr := under(tt).(*types.Pointer); isPtr {
			s.assume(mkImp(okv.S, mkNot(mkEq(nv.S, "0"))))
		}
	case KIface:
		s.assume(mkImp(okv.S, mkNot(mkEq(nv.Tag, "0"))))
	}
	x.assign(s, u.X, res)
	x.eng.note("errors.As stores some non-nil value of the target type on success; which error of the chain is not modelled")
	return okv, true
}

func noop(x *Exec, s *State, e *ast.CallExpr, c callee) (Val, bool) {
	return Val{K: KTuple}, true
}

func lockOp(acquire bool) intrinsic {
	return func(x *Exec, s *State, e *ast.CallExpr, c callee) (Val, bool) {
		name := exprString(c.recvX)
		if acquire {
			s.held[name] = true
			x.monitorEnter(s, name, e.Pos())
		} else {
			x.monitorExit(s, name, e.Pos())
			delete(s.held, name)
		}
		return Val{K: KTuple}, true
	}
}

// monitorEnter: guarded state may have been changed by other holders of the lock: havoc it and
// assume the monitor invariant.  monitorExit: the invariant must hold again.
func (x *Exec) monitorEnter(s *State, lock string, pos token.Pos) {
	ct := x.topContract()
	if ct == nil {
		return
	}
	mon := ct.monitorFor(lock)
	if mon == nil {
		return
	}
	env := x.specEnvAt(s, pos)
	if x.fn != x.eng.curTop {
		return
	}
	snap := s.clone()
	snapEnv := x.specEnvAt(snap, pos)
	for _, g := range mon.guarded {
		x.havocTarget(s, snapEnv, g)
	}
	for _, inv := range mon.invs {
		s.assume(env.evalBool(inv))
	}
	// old() of guarded state refers to its value at this path's first acquisition of the lock
	for n, term := range s.heap {
		if snap.heap[n] == term {
			continue
		}
		if s.oldHeap == nil {
			s.oldHeap = map[string]string{}
		}
		if _, ok := s.oldHeap[n]; !ok {
			s.oldHeap[n] = term
		}
	}
}

func (x *Exec) monitorExit(s *State, lock string, pos token.Pos) {
	ct := x.topContract()
	if ct == nil || x.fn != x.eng.curTop {
		return
	}
	mon := ct.monitorFor(lock)
	if mon == nil {
		return
	}
	env := x.specEnvAt(s, pos)
	for _, inv := range mon.invs {
		x.oblige(s, "monitor", pos, env.evalBool(inv), "monitor invariant of "+lock+" at unlock: "+inv.Src)
	}
}

func (x *Exec) topContract() *Contract {
	if x.eng.curTop == nil {
		return nil
	}
	return x.eng.curTop.contract
}

type monitorDecl struct {
	lock    string
	guarded []*SpecExpr
	invs    []*SpecExpr
}

func (c *Contract) monitorFor(lock string) *monitorDecl {
	for _, m := range c.Monitors {
		if m.lock == lock {
			return m
		}
	}
	return nil
}

// atomicAddr: atomic.AddInt64(&x.f, d) etc. The address must be a direct &lvalue.
func atomicAddr(op string) intrinsic {
	return func(x *Exec, s *State, e *ast.CallExpr, c callee) (Val, bool) {
		u, ok := unparen(e.Args[0]).(*ast.UnaryExpr)
		if !ok || u.Op != token.AND {
			// pointer variable
			p := x.eval(s, e.Args[0])
			pt := under(x.typeOf(e.Args[0])).(*types.Pointer)
			x.nilCheck(s, p.S, e.Pos(), "nil pointer in atomic operation")
			cur := s.loadPtr(pt.Elem(), p.S)
			res, nv, store := x.atomicStep(s, op, cur, e, pt.Elem())
			if store {
				s.storePtr(pt.Elem(), p.S, nv)
			}
			return res, true
		}
		lv := u.X
		t := x.typeOf(lv)
		cur := x.eval(s, lv)
		res, nv, store := x.atomicStep(s, op, cur, e, t)
		if store {
			x.assign(s, lv, nv)
		}
		return res, true
	}
}

func (x *Exec) atomicStep(s *State, op string, cur Val, e *ast.CallExpr, t types.Type) (res, nv Val, store bool) {
	switch op {
	case "load":
		return cur, cur, false
	case "store":
		v := x.convertTo(s, x.eval(s, e.Args[1]), t, e.Pos())
		return Val{K: KTuple}, v, true
	case "add":
		d := x.convertTo(s, x.eval(s, e.Args[1]), t, e.Pos())
		n := x.arith(s, token.ADD, cur, d, t, e.Pos())
		return n, n, true
	case "swap":
		v := x.convertTo(s, x.eval(s, e.Args[1]), t, e.Pos())
		return cur, v, true
	case "cas":
		o := x.convertTo(s, x.eval(s, e.Args[1]), t, e.Pos())
		n := x.convertTo(s, x.eval(s, e.Args[2]), t, e.Pos())
		ok := s.define("cas", sBool, mkEq(cur.S, o.S))
		nv := cur
		nv.S = mkIte(ok, n.S, cur.S)
		nv.Lo, nv.Hi = nil, nil
		nv = s.annotate(nv)
		return boolVal(ok), nv, true
	}
	return Val{}, Val{}, false
}

// atomicTyped: methods of atomic.Int64 & co; the receiver expression is an lvalue of scalar model type.
func atomicTyped(op string) intrinsic {
	return func(x *Exec, s *State, e *ast.CallExpr, c callee) (Val, bool) {
		lv := c.recvX
		t := x.typeOf(lv)
		// receiver may be a pointer to the atomic (e.g. *atomic.Int64 field)
		if pt, ok := types.Unalias(t).(*types.Pointer); ok {
			p := x.eval(s, lv)
			x.nilCheck(s, p.S, e.Pos(), "nil atomic pointer")
			cur := s.loadPtr(pt.Elem(), p.S)
			res, nv, store := x.atomicTypedStep(s, op, cur, e, pt.Elem())
			if store {
				s.storePtr(pt.Elem(), p.S, nv)
			}
			return res, true
		}
		cur := x.eval(s, lv)
		res, nv, store := x.atomicTypedStep(s, op, cur, e, t)
		if store {
			x.assign(s, lv, nv)
		}
		return res, true
	}
}

func (x *Exec) atomicTypedStep(s *State, op string, cur Val, e *ast.CallExpr, t types.Type) (res, nv Val, store bool) {
	vt := under(t)
	arg := func(i int) Val { return x.convertTo(s, x.eval(s, e.Args[i]), vt, e.Pos()) }
	one := constInt(vt, big1)
	if tc := x.topContract(); tc != nil && tc.Opts["atomic_nowrap"] != "" {
		// opt atomic_nowrap: counters held in typed atomics are treated as mathematical integers
		// (the run in which one wraps around is excluded); recorded as an assumption
		exact := func(tok token.Token, a, b Val) Val {
			e := mkAdd(a.S, b.S)
			if tok == token.SUB {
				e = mkSub(a.S, b.S)
			}
			c := s.define("atomic", sInt, e)
			s.assume(rangeFact(vt, c))
			x.eng.note("typed atomic counters of " + x.eng.curTop.name + " are treated as mathematical integers: the execution in which one overflows is excluded (opt atomic_nowrap)")
			return s.annotate(Val{K: KInt, T: vt, S: c})
		}
		switch op {
		case "Add":
			n := exact(token.ADD, cur, arg(0))
			return n, n, true
		case "Sub":
			n := exact(token.SUB, cur, arg(0))
			return n, n, true
		case "Inc":
			n := exact(token.ADD, cur, one)
			return n, n, true
		case "Dec":
			n := exact(token.SUB, cur, one)
			return n, n, true
		}
	}
	switch op {
	case "Load":
		cur.T = vt
		return cur, cur, false
	case "Store":
		return Val{K: KTuple}, arg(0), true
	case "Add":
		n := x.arith(s, token.ADD, cur, arg(0), vt, e.Pos())
		return n, n, true
	case "Sub":
		n := x.arith(s, token.SUB, cur, arg(0), vt, e.Pos())
		return n, n, true
	case "Inc":
		n := x.arith(s, token.ADD, cur, one, vt, e.Pos())
		return n, n, true
	case "Dec":
		n := x.arith(s, token.SUB, cur, one, vt, e.Pos())
		return n, n, true
	case "Swap":
		cur.T = vt
		return cur, arg(0), true
	case "Toggle":
		return cur, boolVal(mkNot(cur.S)), true
	case "CompareAndSwap", "CAS":
		o, n := arg(0), arg(1)
		ok := s.define("cas", sBool, mkEq(cur.S, o.S))
		nv := cur
		nv.S = mkIte(ok, n.S, cur.S)
		nv.Lo, nv.Hi = nil, nil
		nv = s.annotate(nv)
		return boolVal(ok), nv, true
	}
	return Val{}, Val{}, false
}

// atomicModelType maps typed-atomic struct types to the scalar type that models them.
func atomicModelType(t types.Type) types.Type {
	n, ok := types.Unalias(t).(*types.Named)
	if !ok || n.Obj().Pkg() == nil {
		return nil
	}
	p := n.Obj().Pkg().Path()
	if p != "sync/atomic" && p != "go.uber.org/atomic" {
		return nil
	}
	switch n.Obj().Name() {
	case "Int32":
		return types.Typ[types.Int32]
	case "Int64", "Duration":
		return types.Typ[types.Int64]
	case "Uint32":
		return types.Typ[types.Uint32]
	case "Uint64":
		return types.Typ[types.Uint64]
	case "Uintptr":
		return types.Typ[types.Uintptr]
	case "Bool":
		return types.Typ[types.Bool]
	}
	return nil
}

func isSyncType(t types.Type) bool {
	n, ok := types.Unalias(t).(*types.Named)
	if !ok || n.Obj().Pkg() == nil {
		return false
	}
	if n.Obj().Pkg().Path() != "sync" {
		return false
	}
	switch n.Obj().Name() {
	case "Mutex", "RWMutex", "WaitGroup", "Once":
		return true
	}
	return strings.HasPrefix(n.Obj().Name(), "noCopy")
}
