package main

import (
	"go/ast"
	"go/token"
	"go/types"
	"sort"
	"strings"
)

const maxInlineDepth = 5

type callee struct {
	fn      *types.Func // static or interface method
	dynamic bool        // interface method call
	fv      *FuncVal    // closure / func value
	recvX   ast.Expr    // receiver expression (methods)
	unknown bool        // func value of unknown identity
	sig     *types.Signature
	name    string
	path    []fstep // implicit embedded-field path to the method's receiver
}

func (x *Exec) resolveCallee(s *State, e *ast.CallExpr) callee {
	fun := unparen(e.Fun)
	if ix, ok := fun.(*ast.IndexExpr); ok {
		if _, isSig := under(x.typeOf(ix.X)).(*types.Signature); isSig {
			fun = unparen(ix.X)
		}
	}
	if ix, ok := fun.(*ast.IndexListExpr); ok {
		fun = unparen(ix.X)
	}
	sig, _ := under(x.typeOf(e.Fun)).(*types.Signature)
	c := callee{sig: sig, name: exprString(e.Fun)}
	switch f := fun.(type) {
	case *ast.Ident:
		switch o := x.info().Uses[f].(type) {
		case *types.Func:
			c.fn = o
			return c
		case *types.Var:
			v := x.readVar(s, o, f.Pos())
			if v.Fn != nil {
				c.fv = v.Fn
				if v.Fn.Obj != nil && v.Fn.Lit == nil {
					c.fn = v.Fn.Obj
				}
				return c
			}
			c.unknown = true
			return c
		}
	case *ast.SelectorExpr:
		if id, ok := f.X.(*ast.Ident); ok {
			if _, isPkg := x.info().Uses[id].(*types.PkgName); isPkg {
				switch o := x.info().Uses[f.Sel].(type) {
				case *types.Func:
					c.fn = o
					return c
				case *types.Var:
					v := x.readGlobal(s, o)
					if v.Fn != nil {
						c.fv = v.Fn
						return c
					}
					c.unknown = true
					return c
				}
			}
		}
		sel := x.info().Selections[f]
		if sel != nil {
			switch sel.Kind() {
			case types.MethodVal:
				c.fn = sel.Obj().(*types.Func)
				c.recvX = f.X
				if idx := sel.Index(); len(idx) > 1 {
					c.path = x.fieldStepsIdx(x.typeOf(f.X), idx[:len(idx)-1])
				}
				if _, isIface := under(sel.Recv()).(*types.Interface); isIface {
					c.dynamic = true
				}
				if _, isTP := types.Unalias(sel.Recv()).(*types.TypeParam); isTP {
					c.dynamic = true
				}
				return c
			case types.FieldVal:
				v := x.eval(s, f)
				if v.Fn != nil {
					c.fv = v.Fn
					if v.Fn.Obj != nil && v.Fn.Lit == nil {
						c.fn = v.Fn.Obj
					}
					return c
				}
				c.unknown = true
				return c
			}
		}
	case *ast.FuncLit:
		c.fv = &FuncVal{Lit: f, Owner: x.fn}
		return c
	}
	v := x.eval(s, fun)
	if v.Fn != nil {
		c.fv = v.Fn
		if v.Fn.Obj != nil && v.Fn.Lit == nil {
			c.fn = v.Fn.Obj
		}
		return c
	}
	c.unknown = true
	return c
}

func (x *Exec) evalCall(s *State, e *ast.CallExpr) Val {
	// conversion
	if tv, ok := x.info().Types[e.Fun]; ok && tv.IsType() {
		v := x.eval(s, e.Args[0])
		return x.convertTo(s, v, tv.Type, e.Pos())
	}
	// builtin
	if id, ok := unparen(e.Fun).(*ast.Ident); ok {
		if b, ok := x.info().Uses[id].(*types.Builtin); ok {
			return x.evalBuiltin(s, b.Name(), e)
		}
	}
	c := x.resolveCallee(s, e)
	// intrinsics keyed by extern name operate on expressions
	if c.fn != nil && !x.intrinsicHasRule(c) {
		if h, ok := intrinsics[externKey(c.fn.Origin())]; ok {
			if v, handled := h(x, s, e, c); handled {
				return v
			}
		}
	}
	// receiver
	var recv *Val
	var recvBack func(*State)
	if c.fn != nil && c.recvX != nil {
		rv, back := x.evalReceiver(s, c)
		recv, recvBack = &rv, back
	} else if c.fv != nil && c.fv.Recv != nil {
		recv = c.fv.Recv
	}
	x.opaqueAddrArgs = c.fn != nil && x.intrinsicHasRule(c)
	args := x.evalArgs(s, e, c.sig)
	x.opaqueAddrArgs = false
	if s.dead {
		return Val{}
	}
	res := x.dispatch(s, e, c, recv, args)
	if recvBack != nil && !s.dead {
		recvBack(s)
	}
	return res
}

// evalReceiver evaluates the receiver of a method call, adjusting pointer/value-ness.
func (x *Exec) evalReceiver(s *State, c callee) (Val, func(*State)) {
	rt := x.typeOf(c.recvX)
	msig := c.fn.Type().(*types.Signature)
	if c.dynamic || msig.Recv() == nil {
		return x.eval(s, c.recvX), nil
	}
	// walk embedded path to the method's receiver type
	sel := x.info().Selections[unparenSel(c.recvX, x, c)]
	_ = sel
	want := msig.Recv().Type()
	_, wantPtr := under(want).(*types.Pointer)
	v, vt := x.embeddedRecv(s, c)
	_ = rt
	_, havePtr := under(vt).(*types.Pointer)
	switch {
	case wantPtr == havePtr:
		return v, nil
	case wantPtr && !havePtr:
		// addressable value: pointer-receiver method on a variable / field.
		// boxed variables have a real address
		if id, ok := unparen(c.recvX).(*ast.Ident); ok && len(c.path) == 0 {
			if o, ok := x.info().Uses[id].(*types.Var); ok && x.isBoxed(o) {
				if ev, ok := s.env[o]; ok {
					return Val{K: KInt, T: types.NewPointer(vt), S: ev.S}, nil
				}
			}
		}
		// copy-in / copy-out through a temporary cell
		tmp := s.alloc("recv")
		s.storePtr(vt, tmp, v)
		x.eng.note("pointer-receiver calls on value fields/locals use copy-in/copy-out (callee must not retain the pointer)")
		target := c.recvX
		path := c.path
		back := func(st *State) {
			nv := st.loadPtr(vt, tmp)
			if len(path) == 0 {
				x.assign(st, target, nv)
			} else {
				x.assignEmbedded(st, target, path, nv)
			}
		}
		return Val{K: KInt, T: types.NewPointer(vt), S: tmp}, back
	default: // have pointer, want value
		x.nilCheck(s, v.S, c.recvX.Pos(), "nil pointer dereference (method receiver)")
		return s.loadPtr(want, v.S), nil
	}
}

func unparenSel(e ast.Expr, x *Exec, c callee) *ast.SelectorExpr { return nil }

// embeddedRecv evaluates recvX and follows the implicit embedded-field path of the method selection.
func (x *Exec) embeddedRecv(s *State, c callee) (Val, types.Type) {
	v := x.eval(s, c.recvX)
	t := x.typeOf(c.recvX)
	for _, st := range c.path {
		v = x.selectField(s, v, []fstep{st}, c.recvX.Pos())
		t = st.typ
	}
	return v, t
}

func (x *Exec) assignEmbedded(s *State, target ast.Expr, path []fstep, v Val) {
	x.assignField(s, target, path, v, target.Pos())
}

func (x *Exec) evalArgs(s *State, e *ast.CallExpr, sig *types.Signature) []Val {
	var args []Val
	if sig == nil {
		for _, a := range e.Args {
			args = append(args, x.eval(s, a))
		}
		return args
	}
	np := sig.Params().Len()
	// f(g()) with multi-value g
	if len(e.Args) == 1 && np > 1 {
		if tup, ok := x.typeOf(e.Args[0]).(*types.Tuple); ok && tup.Len() > 1 {
			tv := x.eval(s, e.Args[0])
			for i, v := range tv.Fs {
				args = append(args, x.convertTo(s, v, sig.Params().At(i).Type(), e.Pos()))
			}
			return args
		}
	}
	for i, a := range e.Args {
		if sig.Variadic() && i >= np-1 {
			break
		}
		if u, ok := unparen(a).(*ast.UnaryExpr); ok && u.Op == token.AND && x.opaqueAddrArgs {
			args = append(args, Val{K: KInt, T: sig.Params().At(i).Type(), S: x.eng.fresh("addr", sInt)})
			continue
		}
		v := x.eval(s, a)
		if s.dead {
			return nil
		}
		args = append(args, x.convertTo(s, v, sig.Params().At(i).Type(), a.Pos()))
	}
	if sig.Variadic() {
		vt := sig.Params().At(np - 1).Type().(*types.Slice)
		if e.Ellipsis.IsValid() {
			args = append(args, x.eval(s, e.Args[len(e.Args)-1]))
		} else {
			rest := e.Args[np-1:]
			if len(rest) == 0 {
				args = append(args, zeroVal(vt))
			} else {
				ref := s.alloc("va")
				var arrs []string
				for _, l := range leavesOf(vt.Elem()) {
					arrs = append(arrs, zeroArray(arrSort(l.sort)))
				}
				for i, a := range rest {
					v := x.convertTo(s, x.eval(s, a), vt.Elem(), a.Pos())
					for k, t := range flatten(v) {
						arrs[k] = mkSto(arrs[k], numI(int64(i)), t)
					}
				}
				s.setBacking(vt.Elem(), ref, arrs)
				n := numI(int64(len(rest)))
				args = append(args, Val{K: KSlice, T: vt, Ref: ref, Off: "0", Len: n, Cap: n})
			}
		}
	}
	return args
}

// dispatch applies the call-site rules of the function under verification around the call.
func (x *Exec) dispatch(s *State, e *ast.CallExpr, c callee, recv *Val, args []Val) Val {
	pos := e.Pos()
	tc := x.topContract()
	if tc == nil || len(tc.CallSites) == 0 {
		return x.dispatchInner(s, e, c, recv, args)
	}
	cname := ""
	if c.fn != nil {
		cname = c.fn.Name()
	} else if sel, ok := unparen(e.Fun).(*ast.SelectorExpr); ok {
		cname = sel.Sel.Name
	} else if id, ok := unparen(e.Fun).(*ast.Ident); ok {
		cname = id.Name
	}
	var rules []callSiteRule
	for _, r := range tc.CallSites {
		// a rule names: a plain function or closure variable ("writeFileAtomic", "setState"), an interface
		// method ("Recv"), or a method of a concrete type as "Type.Method" ("sequenceBox.setState")
		match := false
		switch {
		case c.fn == nil:
			match = r.callee == cname
		case c.dynamic:
			match = r.callee == cname || r.callee == objKey(c.fn)
		case c.fn.Type().(*types.Signature).Recv() == nil:
			match = r.callee == cname
		default:
			match = r.callee == objKey(c.fn)
		}
		if match {
			rules = append(rules, r)
		}
	}
	if len(rules) == 0 {
		return x.dispatchInner(s, e, c, recv, args)
	}
	top := x.eng.curTop
	tx := &Exec{eng: x.eng, fn: top}
	sp := top.body.Lbrace + 1
	if x.fn == top {
		sp = pos // locals visible at the call are visible to the rule
	} else {
		// a call made inside a function literal of the function under verification (a deferred or
		// immediately called closure): the locals visible where the literal stands are visible to the rule
		for f := x.fn; f != nil && f != top; f = f.parent {
			if f.lit != nil && f.lit.Pos() > top.body.Lbrace && f.lit.End() <= top.body.Rbrace {
				sp = f.lit.Pos()
			}
		}
	}
	mkEnv := func() *SpecEnv {
		env := tx.specEnvAt(s, sp)
		for i, a := range args {
			env.vars["arg"+itoa(i)] = a
		}
		if recv != nil {
			env.vars["argrecv"] = *recv
		}
		return env
	}
	for _, r := range rules {
		if r.req != nil {
			x.oblige(s, "callsite", pos, mkEnv().evalBool(r.req), "call of "+cname+" requires "+r.req.Src)
		}
	}
	res := x.dispatchInner(s, e, c, recv, args)
	if s.dead {
		return res
	}
	for _, r := range rules {
		if r.then == nil {
			continue
		}
		env := mkEnv()
		switch res.K {
		case KTuple:
			for i, v := range res.Fs {
				env.vars["res"+itoa(i)] = v
			}
		case KNone:
		default:
			env.vars["res0"] = res
		}
		en := *env
		en.src = r.then
		x.eng.specQuiet++
		v := en.eval(r.then.E)
		x.eng.specQuiet--
		if _, ok := s.ghost[r.ghost]; !ok {
			x.eng.unsupported(pos, "callsite rule assigns undeclared ghost %s", r.ghost)
		}
		c := x.eng.fresh("ghost."+r.ghost, sInt)
		s.assume(mkEq(c, v.S))
		s.ghost[r.ghost] = Val{K: KInt, S: c}
		if s.written != nil {
			s.written["$ghost."+r.ghost] = true // a loop whose body runs this rule havocs the ghost at its head
		}
	}
	return res
}

// intrinsicHasRule: a call-site rule of the top contract names this (intrinsically modelled) callee.
func (x *Exec) intrinsicHasRule(c callee) bool {
	tc := x.topContract()
	if tc == nil || c.fn == nil {
		return false
	}
	if _, ok := intrinsics[externKey(c.fn.Origin())]; !ok {
		return false
	}
	for _, r := range tc.CallSites {
		if r.callee == c.fn.Name() || r.callee == objKey(c.fn) {
			return true
		}
	}
	return false
}

// dispatchInner: contract, inline, assumed, or havoc.
func (x *Exec) dispatchInner(s *State, e *ast.CallExpr, c callee, recv *Val, args []Val) Val {
	pos := e.Pos()
	if c.fn != nil && x.intrinsicHasRule(c) {
		// an intrinsic that a call-site rule of the function under verification talks about: the
		// rule has been applied by dispatch, now the built-in model
		if h, ok := intrinsics[externKey(c.fn.Origin())]; ok {
			if v, handled := h(x, s, e, c); handled {
				return v
			}
		}
	}
	if c.fv != nil && c.fv.Lit != nil {
		return x.inlineLit(s, c.fv, args, pos)
	}
	if c.unknown || c.fn == nil {
		// func-typed field with a declared contract?
		if fc := x.funcFieldContract(e); fc != nil {
			return x.applyContract(s, fc, nil, c.sig, recv, args, pos, exprString(e.Fun))
		}
		if n, ok := types.Unalias(x.typeOf(e.Fun)).(*types.Named); ok && n.Obj().Pkg() != nil && n.Obj().Pkg().Path() == "context" &&
			(n.Obj().Name() == "CancelFunc" || n.Obj().Name() == "CancelCauseFunc") {
			// cancelling a context writes nothing the verified code reads (Done/Err are modelled as nondeterministic)
			x.eng.note("calling a context.CancelFunc has no effect on the heap")
			return Val{K: KTuple}
		}
		return x.havocCall(s, c.sig, exprString(e.Fun), recv, args, pos)
	}
	fn := c.fn.Origin()
	if c.dynamic {
		// contract attached to the interface method
		if ct := x.eng.ifaceContract(fn, recv); ct != nil {
			x.eng.assumed[ct.Key] = true
			return x.applyContract(s, ct, fn, c.sig, recv, args, pos, ct.Key)
		}
		if x.eng.isPureIface(fn, recv) {
			var extra []string
			for _, a := range args {
				extra = append(extra, flatten(a)...)
			}
			return x.pureIfaceCall(s, *recv, fn, extra)
		}
		return x.havocCall(s, c.sig, externKey(fn), recv, args, pos)
	}
	if ct := x.eng.contractFor(fn); ct != nil {
		if ct.Extern || ct.Trusted {
			x.eng.assumed[externKey(fn)] = true
		}
		return x.applyContract(s, ct, fn, c.sig, recv, args, pos, externKey(fn))
	}
	if di, ok := x.eng.funcDecls[fn]; ok {
		if x.fn.depth < maxInlineDepth && !x.onStack(fn) {
			return x.inlineDecl(s, di, fn, recv, args, pos)
		}
		x.eng.unsupported(pos, "call of %s: recursion or inline depth exceeded; callee needs a contract", externKey(fn))
	}
	return x.havocCall(s, c.sig, externKey(fn), recv, args, pos)
}

func (x *Exec) onStack(fn *types.Func) bool {
	for f := x.fn; f != nil; f = f.parent {
		if f.obj == fn {
			return true
		}
	}
	return false
}

func (e *Engine) isPureIface(fn *types.Func, recv *Val) bool {
	if e.db.PureIface["*."+fn.Name()] {
		return true
	}
	return e.db.PureIface[externKey(fn)]
}

func (e *Engine) ifaceContract(fn *types.Func, recv *Val) *Contract {
	if c, ok := e.db.Contracts[externKey(fn)]; ok {
		return c
	}
	if fn.Pkg() != nil && e.db.PurePkgs[fn.Pkg().Path()] {
		return e.contractFor(fn)
	}
	return nil
}

func (x *Exec) funcFieldContract(e *ast.CallExpr) *Contract {
	if sel, ok := unparen(e.Fun).(*ast.SelectorExpr); ok {
		if s := x.info().Selections[sel]; s != nil && s.Kind() == types.FieldVal {
			rt := s.Recv()
			if p, ok := under(rt).(*types.Pointer); ok {
				rt = p.Elem()
			}
			if n, ok := types.Unalias(rt).(*types.Named); ok && n.Obj().Pkg() != nil {
				if c, ok := x.eng.db.Contracts[n.Obj().Pkg().Path()+"::"+n.Obj().Name()+"."+sel.Sel.Name]; ok {
					return c
				}
			}
		}
	}
	return nil
}

// pureIfaceCall models a side-effect free interface method as an uninterpreted function of
// (dynamic type, data pointer, heap version, arguments).
func (x *Exec) pureIfaceCall(s *State, recv Val, fn *types.Func, extra []string) Val {
	sig := fn.Type().(*types.Signature)
	if sig.Results().Len() != 1 {
		x.eng.unsupported(token.NoPos, "pure interface method %s must have one result", fn.Name())
	}
	rt := sig.Results().At(0).Type()
	ls := leavesOf(rt)
	terms := make([]string, len(ls))
	for i, l := range ls {
		name := "m$" + fn.Name() + "$" + sanitize(l.path)
		argSorts := []string{sInt, sInt, sInt}
		for range extra {
			argSorts = append(argSorts, sInt)
		}
		x.eng.dynUF[name] = &UFDecl{Name: name, Args: argSorts, Ret: l.sort}
		a := append([]string{recv.Tag, recv.Dat, numI(int64(s.hv))}, extra...)
		terms[i] = app(name, a...)
	}
	v, _ := unflatten(rt, terms)
	s.assumeTyped(v)
	return s.annotate(v)
}

// havocCall: unknown callee. Results are arbitrary; the heap is havocked unless the call cannot reach it.
func (x *Exec) havocCall(s *State, sig *types.Signature, name string, recv *Val, args []Val, pos token.Pos) Val {
	reach := false
	chk := func(v Val) {
		if len(refsOf(v)) > 0 || v.K == KFunc {
			reach = true
		}
	}
	if recv != nil {
		chk(*recv)
	}
	for _, a := range args {
		chk(a)
	}
	if reach {
		x.eng.unmod[name+" (heap havocked)"] = true
		x.havocHeap(s)
	} else {
		x.eng.unmod[name+" (results arbitrary)"] = true
	}
	res := x.freshResults(s, sig, name)
	if tc := x.topContract(); tc != nil && tc.Opts["unknown_results_nonnil"] != "" {
		// stated assumption of the contract: the unknown functions called here (constructors held
		// in function variables) return non-nil pointers
		nn := func(v Val) {
			if _, isPtr := under(v.T).(*types.Pointer); isPtr && v.K == KInt {
				s.assume(mkNot(mkEq(v.S, "0")))
			}
		}
		if res.K == KTuple {
			for _, f := range res.Fs {
				nn(f)
			}
		} else {
			nn(res)
		}
		x.eng.note("pointers returned by calls through function variables are non-nil in " + x.eng.curTop.name + " (opt unknown_results_nonnil)")
	}
	return res
}

func (x *Exec) havocHeap(s *State) {
	// the unknown code may allocate
	cur := s.allocPtr()
	nxt := x.eng.fresh("alloc", sInt)
	s.pc = s.pc.push(mkCmp("<=", cur, nxt))
	s.heap["$alloc"] = nxt
	for _, n := range sortedKeys(s.heap) {
		if n == "$alloc" || strings.HasPrefix(n, "G$") || x.eng.immutableArray(n) {
			continue
		}
		old := s.heap[n]
		s.heapHavoc(n, x.eng.decl[old])
		if strings.HasPrefix(n, "H$") && len(s.privRefs) > 0 {
			// cells of private address-taken locals are out of reach of unknown code
			t := s.heap[n]
			for _, r := range s.privRefs {
				t = mkSto(t, r, mkSel(old, r))
			}
			c := x.eng.fresh(n+"@", x.eng.decl[old])
			s.pc = s.pc.push(mkEq(c, t))
			s.heap[n] = c
		}
	}
	s.hvAll = true
	s.lazyRefs = nil
}

func (x *Exec) freshResults(s *State, sig *types.Signature, name string) Val {
	if sig == nil || sig.Results().Len() == 0 {
		return Val{K: KTuple}
	}
	if sig.Results().Len() == 1 {
		return s.freshVal("r."+shortName(name), sig.Results().At(0).Type())
	}
	t := Val{K: KTuple}
	for i := 0; i < sig.Results().Len(); i++ {
		t.Fs = append(t.Fs, s.freshVal("r."+shortName(name), sig.Results().At(i).Type()))
	}
	return t
}

func shortName(n string) string {
	if i := strings.LastIndex(n, "/"); i >= 0 {
		n = n[i+1:]
	}
	return n
}

// ---- inlining ---------------------------------------------------------------------

func (x *Exec) newFnCtx(pkgPath string, fd *ast.FuncDecl, lit *ast.FuncLit, obj *types.Func, sig *types.Signature) *FnCtx {
	p := x.eng.pkgs[pkgPath]
	f := &FnCtx{eng: x.eng, pkg: p, decl: fd, lit: lit, obj: obj, sig: sig, parent: x.fn, depth: x.fn.depth + 1}
	if fd != nil {
		f.body, f.ftype = fd.Body, fd.Type
		f.key = funcKey(fd)
		f.name = shortPkg(pkgPath) + "." + f.key
	} else {
		f.body, f.ftype = lit.Body, lit.Type
		f.name = x.fn.name + "$lit"
		f.pkg = x.fn.pkg
	}
	f.loops, f.retOrd = numberLoops(f.body)
	f.boxed = findBoxed(f.pkg.TypesInfo, f.body)
	f.slicedArr = findSlicedArrays(f.pkg.TypesInfo, f.body)
	f.noOvf = false
	if obj != nil {
		if ct := x.eng.contractFor(obj); ct != nil {
			f.contract = ct
			f.noOvf = ct.NoOvf
		}
	}
	return f
}

func (x *Exec) inlineDecl(s *State, di *declInfo, fn *types.Func, recv *Val, args []Val, pos token.Pos) Val {
	sig := fn.Type().(*types.Signature)
	f := x.newFnCtx(di.pkg.PkgPath, di.decl, nil, fn, sig)
	return x.runInline(s, f, recv, args, pos)
}

func (x *Exec) inlineLit(s *State, fv *FuncVal, args []Val, pos token.Pos) Val {
	owner := fv.Owner
	if owner == nil {
		owner = x.fn
	}
	sig := owner.pkg.TypesInfo.TypeOf(fv.Lit).(*types.Signature)
	f := &FnCtx{eng: x.eng, pkg: owner.pkg, lit: fv.Lit, sig: sig, parent: x.fn, depth: x.fn.depth + 1,
		body: fv.Lit.Body, ftype: fv.Lit.Type, name: owner.name + "$lit"}
	if f.depth > maxInlineDepth+2 {
		x.eng.unsupported(pos, "closure inline depth exceeded")
	}
	f.loops, f.retOrd = numberLoops(f.body)
	f.boxed = findBoxed(f.pkg.TypesInfo, f.body)
	f.slicedArr = findSlicedArrays(f.pkg.TypesInfo, f.body)
	// loop keys of literals are relative to the literal; contract of the enclosing top function addresses them as lit<N>
	f.litOwner = owner
	f.noOvf = owner.noOvf
	return x.runInline(s, f, nil, args, pos)
}

// runInline executes the callee body in the current state and merges its return paths.
func (x *Exec) runInline(s *State, f *FnCtx, recv *Val, args []Val, pos token.Pos) Val {
	sub := &Exec{eng: x.eng, fn: f}
	anc := s.pc
	sub.bindParams(s, recv, args)
	savedDefers := s.defers
	s.defers = nil
	end := sub.execBlock(s, f.body.List)
	if end != nil {
		if f.sig.Results().Len() > 0 && !namedResults(f) {
			// falling off the end of a function with results is impossible in valid Go
		}
		var vals []Val
		for _, r := range f.results {
			vals = append(vals, sub.readVar(end, r, f.body.End()))
		}
		sub.rets = append(sub.rets, &retState{s: end, vals: vals, pos: f.body.End()})
	}
	var outs []*State
	var rvals [][]Val
	for _, r := range sub.rets {
		st := sub.runDefers(r)
		if st == nil {
			continue
		}
		st.defers = savedDefers
		outs = append(outs, st)
		rvals = append(rvals, r.vals)
	}
	if len(outs) == 0 {
		s.dead = true
		return Val{}
	}
	// merge
	nres := f.sig.Results().Len()
	if len(outs) == 1 {
		*s = *outs[0]
		return packResults(rvals[0], nres)
	}
	// put result values into a synthetic env slot so mergeStates joins them
	tmpObjs := make([]*types.Var, nres)
	for i := 0; i < nres; i++ {
		tmpObjs[i] = types.NewVar(token.NoPos, nil, "ret"+itoa(i), f.sig.Results().At(i).Type())
		for k, st := range outs {
			st.env[tmpObjs[i]] = rvals[k][i]
		}
	}
	m := x.mergeStates(anc, outs)
	res := make([]Val, nres)
	for i := 0; i < nres; i++ {
		res[i] = m.env[tmpObjs[i]]
		delete(m.env, tmpObjs[i])
	}
	*s = *m
	return packResults(res, nres)
}

func namedResults(f *FnCtx) bool {
	return len(f.results) > 0 && f.results[0].Name() != ""
}

func packResults(vals []Val, n int) Val {
	if n == 0 {
		return Val{K: KTuple}
	}
	if n == 1 {
		return vals[0]
	}
	return Val{K: KTuple, Fs: vals}
}

// bindParams binds receiver, parameters and (zeroed) results in the state.
func (x *Exec) bindParams(s *State, recv *Val, args []Val) {
	f := x.fn
	info := f.info()
	f.specVars = map[string]Val{}
	if f.decl != nil && f.decl.Recv != nil && len(f.decl.Recv.List) == 1 && recv != nil {
		fld := f.decl.Recv.List[0]
		if len(fld.Names) == 1 {
			if o, ok := info.Defs[fld.Names[0]].(*types.Var); ok && o != nil {
				x.bindVar(s, o, *recv)
				f.recv = o
				f.specVars[o.Name()] = *recv
			}
		}
	}
	i := 0
	for _, fld := range f.ftype.Params.List {
		if len(fld.Names) == 0 {
			i++
			continue
		}
		for _, n := range fld.Names {
			if o, ok := info.Defs[n].(*types.Var); ok && o != nil && i < len(args) {
				x.bindVar(s, o, args[i])
				f.specVars[o.Name()] = args[i]
			}
			i++
		}
	}
	f.results = nil
	if f.ftype.Results != nil {
		for _, fld := range f.ftype.Results.List {
			if len(fld.Names) == 0 {
				t := info.TypeOf(fld.Type)
				f.results = append(f.results, types.NewVar(token.NoPos, nil, "", t))
				continue
			}
			for _, n := range fld.Names {
				o, _ := info.Defs[n].(*types.Var)
				if o == nil { // blank result name
					o = types.NewVar(token.NoPos, nil, "_", info.TypeOf(fld.Type))
					f.results = append(f.results, o)
					continue
				}
				x.bindVar(s, o, zeroVal(o.Type()))
				f.results = append(f.results, o)
			}
		}
	}
}

// runDefers executes the deferred calls of a return state (LIFO) and re-reads named results.
func (x *Exec) runDefers(r *retState) *State {
	s := r.s
	for i := len(s.defers) - 1; i >= 0; i-- {
		d := s.defers[i]
		s.defers = s.defers[:i]
		d.run(s)
		if s.dead {
			return nil
		}
	}
	if namedResults(x.fn) {
		for i, o := range x.fn.results {
			if o.Name() != "_" && o.Name() != "" {
				r.vals[i] = x.readVar(s, o, r.pos)
			}
		}
	}
	return s
}

func (x *Exec) execDefer(s *State, st *ast.DeferStmt) {
	e := st.Call
	if id, ok := unparen(e.Fun).(*ast.Ident); ok {
		if b, ok := x.info().Uses[id].(*types.Builtin); ok {
			// defer close(ch) / delete(m, k) / ...: operands are simple expressions; they are evaluated
			// when the deferred call runs (sound for variables that are not reassigned in between, which
			// is noted as an assumption)
			ex := x
			name := b.Name()
			x.eng.note("deferred builtin calls evaluate their operands when they run (operands assumed not reassigned in between)")
			s.defers = append(append([]*deferred(nil), s.defers...), &deferred{run: func(st *State) {
				ex.evalBuiltin(st, name, e)
			}})
			return
		}
	}
	// intrinsic deferred calls (Unlock etc.) and ordinary calls: arguments are evaluated now
	c := x.resolveCallee(s, e)
	var recv *Val
	var args []Val
	isIntrinsic := false
	if c.fn != nil {
		if _, ok := intrinsics[externKey(c.fn.Origin())]; ok {
			isIntrinsic = true
		}
	}
	if !isIntrinsic {
		if c.fn != nil && c.recvX != nil {
			rv, _ := x.evalReceiver(s, c)
			recv = &rv
		} else if c.fv != nil && c.fv.Recv != nil {
			recv = c.fv.Recv
		}
		args = x.evalArgs(s, e, c.sig)
	}
	ex := x
	s.defers = append(append([]*deferred(nil), s.defers...), &deferred{run: func(st *State) {
		if isIntrinsic {
			h := intrinsics[externKey(c.fn.Origin())]
			if _, handled := h(ex, st, e, c); handled {
				return
			}
		}
		ex.dispatch(st, e, c, recv, args)
	}})
}

func (x *Exec) execGo(s *State, st *ast.GoStmt) {
	// spawn: check the callee's precondition; nothing is learned from its execution.
	e := st.Call
	c := x.resolveCallee(s, e)
	var recv *Val
	if c.fn != nil && c.recvX != nil {
		rv, _ := x.evalReceiver(s, c)
		recv = &rv
	}
	args := x.evalArgs(s, e, c.sig)
	if c.fn != nil {
		if ct := x.eng.contractFor(c.fn.Origin()); ct != nil {
			env := x.contractEnv(s, s, ct, c.fn.Origin(), c.sig, recv, args, nil)
			for _, r := range ct.Requires {
				x.oblige(s, "pre@go", st.Pos(), env.evalBool(r), "precondition of spawned "+ct.Key+": "+r.Src)
			}
		}
	}
	x.eng.note("go statements: the spawned function is verified separately; its effects are not visible to the spawner")
	// values captured by reference may be changed concurrently: closures' assigned captured variables are havocked
	if c.fv != nil && c.fv.Lit != nil {
		x.havocAssigned(s, c.fv.Lit.Body)
	}
}

// havocAssigned forgets local variables assigned inside node (concurrent writer).
func (x *Exec) havocAssigned(s *State, node ast.Node) {
	info := x.info()
	ast.Inspect(node, func(n ast.Node) bool {
		as, ok := n.(*ast.AssignStmt)
		if !ok || as.Tok == token.DEFINE {
			return true
		}
		for _, l := range as.Lhs {
			if id, ok := unparen(l).(*ast.Ident); ok {
				if o, ok := info.Uses[id].(*types.Var); ok {
					if _, bound := s.env[o]; bound && !x.isBoxed(o) {
						s.env[o] = s.freshVal("conc."+o.Name(), o.Type())
					}
				}
			}
		}
		return true
	})
}

// ---- contracts at call sites ----------------------------------------------------------

// contractEnv builds the spec environment binding the callee's parameter names.
func (x *Exec) contractEnv(s, old *State, ct *Contract, fn *types.Func, sig *types.Signature, recv *Val, args []Val, results []Val) *SpecEnv {
	vars := map[string]Val{}
	var pk *types.Package
	var scope *types.Scope
	if fn != nil {
		pk = fn.Pkg()
		if p, ok := x.eng.pkgs[pkPath(fn)]; ok {
			scope = p.Types.Scope()
			pk = p.Types
		}
		fsig := fn.Type().(*types.Signature)
		if fsig.Recv() != nil && recv != nil {
			n := fsig.Recv().Name()
			if n == "" || n == "_" {
				n = "recv"
			}
			vars[n] = *recv
			vars["recv"] = *recv
		}
		for i := 0; i < fsig.Params().Len() && i < len(args); i++ {
			n := fsig.Params().At(i).Name()
			if n != "" && n != "_" {
				vars[n] = args[i]
			}
		}
		for i := 0; i < fsig.Results().Len() && i < len(results); i++ {
			n := fsig.Results().At(i).Name()
			if n != "" && n != "_" {
				vars[n] = results[i]
			}
		}
	}
	for i, n := range ct.Params {
		if i < len(args) {
			vars[n] = args[i]
		}
	}
	for i, n := range ct.Results {
		if i < len(results) {
			vars[n] = results[i]
		}
	}
	if len(results) == 1 {
		vars["result"] = results[0]
	}
	if recv != nil {
		vars["recv"] = *recv
	}
	return &SpecEnv{x: x, s: s, old: old, vars: vars, pkg: pk, scope: scope, pos: token.NoPos}
}

func pkPath(fn *types.Func) string {
	if fn.Pkg() == nil {
		return ""
	}
	return fn.Pkg().Path()
}

// applyContract: assert requires, havoc modifies, assume ensures.
func (x *Exec) applyContract(s *State, ct *Contract, fn *types.Func, sig *types.Signature, recv *Val, args []Val, pos token.Pos, name string) Val {
	// ghost variables declared by the callee are local to it: at a call site they are fresh, and
	// clauses about them describe the callee's own bookkeeping (assumed, not asserted, here)
	var localGhosts []string
	savedGhosts := map[string]Val{}
	for _, g := range ct.Ghosts {
		name := strings.Fields(g)[0]
		if cur, ok := s.ghost[name]; ok {
			savedGhosts[name] = cur // a caller ghost of the same name is a different variable
		}
		s.ghost[name] = Val{K: KInt, S: x.eng.fresh("cghost."+name, sInt)}
		localGhosts = append(localGhosts, name)
	}
	defer func() {
		for _, g := range localGhosts {
			if sv, ok := savedGhosts[g]; ok {
				s.ghost[g] = sv
			} else {
				delete(s.ghost, g)
			}
		}
	}()
	mentionsLocalGhost := func(src string) bool {
		for _, g := range localGhosts {
			if strings.Contains(src, g) {
				return true
			}
		}
		return false
	}
	pre := x.contractEnv(s, s, ct, fn, sig, recv, args, nil)
	for _, r := range ct.Requires {
		g := pre.evalBool(r)
		if !mentionsLocalGhost(r.Src) {
			x.oblige(s, "pre@call", pos, g, "precondition of "+shortName(name)+": "+r.Src)
		}
		s.assume(g)
	}
	old := s.clone()
	// the callee's own ghosts change during the call: its postconditions speak about their final values
	for _, g := range localGhosts {
		s.ghost[g] = Val{K: KInt, S: x.eng.fresh("cghost."+g+"'", sInt)}
	}
	// frame: the targets of the modifies clause are resolved in the pre-call state
	if !ct.Pure {
		if ct.HasMod {
			snapEnv := x.contractEnv(old, old, ct, fn, sig, recv, args, nil)
			for g, v := range s.ghost {
				_ = g
				_ = v
			}
			for _, m := range ct.Modifies {
				x.havocTarget(s, snapEnv, m)
			}
		} else if !ct.Extern && len(ct.Ensures) == 0 {
			// a contract of a function of the repository that states neither a frame nor a
			// postcondition has no checked frame (verify.go checks it only then): the call may write anything
			x.havocHeap(s)
		}
		if !ct.Extern || ct.HasMod {
			// the callee may allocate
			cur := s.allocPtr()
			nxt := x.eng.fresh("alloc", sInt)
			s.pc = s.pc.push(mkCmp("<=", cur, nxt))
			s.heap["$alloc"] = nxt
		}
	}
	res := x.freshResults(s, sig, name)
	var rl []Val
	if sig != nil {
		switch sig.Results().Len() {
		case 0:
		case 1:
			rl = []Val{res}
		default:
			rl = res.Fs
		}
	}
	for _, fr := range ct.Fresh {
		// fresh result references: the result's reference leaf is replaced by a newly allocated one
		// (never equated with the unconstrained result constant, which is below the allocation pointer)
		env := x.contractEnv(s, old, ct, fn, sig, recv, args, rl)
		v, ok := env.vars[fr]
		if !ok {
			continue
		}
		for i := range rl {
			if !sameVal(rl[i], v) {
				continue
			}
			nr := s.alloc("fresh")
			switch rl[i].K {
			case KSlice:
				rl[i].Ref = nr
			case KIface:
				rl[i].Dat = nr
			case KInt:
				rl[i].S = nr
				rl[i].Lo, rl[i].Hi = nil, nil
			}
		}
		if len(rl) == 1 {
			res = rl[0]
		} else if len(rl) > 1 {
			res.Fs = rl
		}
	}
	post := x.contractEnv(s, old, ct, fn, sig, recv, args, rl)
	post.freshBase = old.allocPtr() // isfresh() in the callee's postcondition: allocated during the call
	for _, en := range ct.Ensures {
		s.assume(post.evalBool(en))
	}
	return res
}

// havocTarget forgets the heap locations named by a modifies clause.
func (x *Exec) havocTarget(s *State, env *SpecEnv, m *SpecExpr) {
	e := *env
	e.src = m
	switch t := m.E.(type) {
	case *ast.IndexExpr: // s[*] or s[i]
		b := e.eval(t.X)
		if _, isMap := under(b.T).(*types.Map); isMap && b.K == KInt {
			// m[*]: the contents of the map object m (whole-map granularity)
			pres, ps, _, vs, names := x.mapArrays(s, b.T)
			cur := s.heapGet(pres, ps)
			s.heapSet(pres, ps, mkSto(cur, b.S, x.eng.fresh("hv", ps[len("(Array Int "):len(ps)-1])), b.S)
			for i := range names {
				c := s.heapGet(names[i], vs[i])
				s.heapSet(names[i], vs[i], mkSto(c, b.S, x.eng.fresh("hv", vs[i][len("(Array Int "):len(vs[i])-1])), b.S)
			}
			return
		}
		if b.K != KSlice {
			e.fail("modifies: %s is not a slice", exprString(t.X))
		}
		et := under(b.T).(*types.Slice).Elem()
		key := typeKey(et)
		all := false
		if id, ok := t.Index.(*ast.Ident); ok && (id.Name == "__all" || id.Name == "__allcap") {
			all = true
			if id.Name == "__allcap" {
				// s[*cap]: every element of the backing store within the capacity (append in place)
				b.Len = b.Cap
			}
		}
		for _, l := range leavesOf(et) {
			name := "M$" + key + "$" + l.path
			srt := arrSort(arrSort(l.sort))
			cur := s.heapGet(name, srt)
			if cnt, ok := isNumLit(b.Len); all && ok && cnt.IsInt64() && cnt.Int64() <= 16 {
				// small constant length: havoc the elements one by one (quantifier-free)
				na := mkSel(cur, b.Ref)
				for j := int64(0); j < cnt.Int64(); j++ {
					hv := x.eng.fresh("hv", l.sort)
					s.assume(rangeFact(l.typ, hv))
					na = mkSto(na, mkAdd(b.Off, numI(j)), hv)
				}
				if cnt.Int64() > 0 {
					s.heapSet(name, srt, mkSto(cur, b.Ref, na), b.Ref)
				}
				continue
			}
			if all {
				// elements within [off, off+len) change; others of the same backing store stay
				fa := x.eng.fresh("hv", arrSort(l.sort))
				x.eng.innerTypingAxiom(fa, l.typ)
				k := "k!f"
				s.assume(sf("(forall ((%s Int)) (! (=> (or (< %s %s) (>= %s %s)) (= (select %s %s) (select (select %s %s) %s))) :pattern ((select %s %s))))",
					k, k, b.Off, k, mkAdd(b.Off, b.Len), fa, k, cur, b.Ref, k, fa, k))
				s.heapSet(name, srt, mkSto(cur, b.Ref, fa), b.Ref)
			} else {
				i := e.eval(t.Index)
				fv := x.eng.fresh("hv", l.sort)
				s.assume(rangeFact(l.typ, fv))
				s.heapSet(name, srt, mkSto(cur, b.Ref, mkSto(mkSel(cur, b.Ref), mkAdd(b.Off, i.S), fv)), b.Ref)
			}
		}
	case *ast.SelectorExpr: // p.f
		base := e.eval(t.X)
		pt, ok := under(base.T).(*types.Pointer)
		if !ok {
			e.fail("modifies: %s is not a pointer", exprString(t.X))
		}
		if t.Sel.Name == "__allfields" {
			for _, l := range leavesOf(pt.Elem()) {
				name := "H$" + typeKey(pt.Elem()) + "$" + l.path
				srt := arrSort(l.sort)
				s.heapSet(name, srt, mkSto(s.heapGet(name, srt), base.S, x.eng.fresh("hv", l.sort)), base.S)
			}
			return
		}
		_, f := fieldIndex(pt.Elem(), t.Sel.Name)
		if f == nil {
			e.fail("modifies: no field %s", t.Sel.Name)
		}
		for _, l := range leavesOf(f.Type()) {
			name := "H$" + typeKey(pt.Elem()) + "$." + t.Sel.Name + l.path
			srt := arrSort(l.sort)
			s.heapSet(name, srt, mkSto(s.heapGet(name, srt), base.S, x.eng.fresh("hv", l.sort)), base.S)
		}
	case *ast.StarExpr: // *p
		base := e.eval(t.X)
		if base.K == KIface {
			// *v for an interface value: the object it holds, whatever its type: its cell in every
			// pointer-cell array (those first touched later too)
			for _, n := range sortedKeys(s.heap) {
				if !strings.HasPrefix(n, "H$") {
					continue
				}
				srt := x.eng.decl[s.heap[n]]
				if !strings.HasPrefix(srt, "(Array Int ") {
					continue
				}
				el := srt[len("(Array Int ") : len(srt)-1]
				s.heapSet(n, srt, mkSto(s.heap[n], base.Dat, x.eng.fresh("hv", el)), base.Dat)
			}
			s.lazyRefs = append(s.lazyRefs[:len(s.lazyRefs):len(s.lazyRefs)], base.Dat)
			return
		}
		pt, ok := under(base.T).(*types.Pointer)
		if !ok {
			e.fail("modifies: %s is not a pointer", exprString(t.X))
		}
		for _, l := range leavesOf(pt.Elem()) {
			name := "H$" + typeKey(pt.Elem()) + "$" + l.path
			srt := arrSort(l.sort)
			s.heapSet(name, srt, mkSto(s.heapGet(name, srt), base.S, x.eng.fresh("hv", l.sort)), base.S)
		}
	case *ast.Ident:
		if t.Name == "everything" {
			x.havocHeap(s)
			return
		}
		if g, ok := s.ghost[t.Name]; ok {
			s.ghost[t.Name] = s.freshVal("ghost."+t.Name, g.T)
			return
		}
		e.fail("modifies: unsupported target %s", t.Name)
	default:
		e.fail("modifies: unsupported target %s", exprString(m.E))
	}
}

// modTargets resolves modifies clauses to (heap array, ref term, index range) triples for frame checks.
type modTarget struct {
	array  string
	ref    string
	lo, hi string // element range for M$ arrays ("" = single cell / whole)
}

func sortedStrings(m map[string]bool) []string {
	var out []string
	for k := range m {
		out = append(out, k)
	}
	sort.Strings(out)
	return out
}
