package main

import (
	"fmt"
	"go/ast"
	"go/token"
	"go/types"
	"sort"
	"strings"
)

type FuncReport struct {
	Name        string
	Pkg         string
	Key         string
	Obligations int
	Unsupported string
	Arith       string
	Contract    bool
	File        string
}

// findFunc locates a function declaration (or func literal "Key$N") in a package.
func (e *Engine) findFunc(pkgPath, key string) (*declInfo, *ast.FuncLit) {
	p := e.pkgs[pkgPath]
	if p == nil {
		return nil, nil
	}
	base, litOrd := key, 0
	if i := strings.Index(key, "$"); i >= 0 {
		base = key[:i]
		fmt.Sscanf(key[i+1:], "%d", &litOrd)
	}
	for _, f := range p.Syntax {
		for _, d := range f.Decls {
			fd, ok := d.(*ast.FuncDecl)
			if !ok || fd.Body == nil || funcKey(fd) != base {
				continue
			}
			if litOrd == 0 {
				return &declInfo{fd, p}, nil
			}
			n := 0
			var found *ast.FuncLit
			ast.Inspect(fd.Body, func(nd ast.Node) bool {
				if fl, ok := nd.(*ast.FuncLit); ok {
					n++
					if n == litOrd {
						found = fl
					}
				}
				return true
			})
			if found != nil {
				return &declInfo{fd, p}, found
			}
		}
	}
	return nil, nil
}

// verifyFunc generates all obligations of one function under contract.
func (e *Engine) verifyFunc(pkgPath, key string) (rep FuncReport) {
	rep = FuncReport{Name: shortPkg(pkgPath) + "." + key, Pkg: pkgPath, Key: key}
	di, lit := e.findFunc(pkgPath, key)
	if di == nil {
		rep.Unsupported = "function not found in " + pkgPath
		return
	}
	ct := e.db.Contracts[pkgPath+"::"+key]
	rep.Contract = ct != nil
	if ct == nil {
		ct = &Contract{Key: key, Loops: map[string][]*SpecExpr{}, Opts: map[string]string{}}
	}
	obj, _ := di.pkg.TypesInfo.Defs[di.decl.Name].(*types.Func)
	f := &FnCtx{eng: e, pkg: di.pkg, decl: di.decl, key: key, name: rep.Name, contract: ct, top: true, noOvf: ct.NoOvf, obj: obj}
	rep.File = posStr(e.fset, di.decl.Pos())
	if lit != nil {
		f.decl = nil
		f.lit = lit
		f.body, f.ftype = lit.Body, lit.Type
		f.sig = di.pkg.TypesInfo.TypeOf(lit).(*types.Signature)
		f.litOwner = &FnCtx{eng: e, pkg: di.pkg, decl: di.decl, contract: ct, name: rep.Name}
		f.obj = nil
	} else {
		f.body, f.ftype = di.decl.Body, di.decl.Type
		f.sig = obj.Type().(*types.Signature)
	}
	f.loops, f.retOrd = numberLoops(f.body)
	f.boxed = findBoxed(di.pkg.TypesInfo, f.body)
	f.slicedArr = findSlicedArrays(di.pkg.TypesInfo, f.body)
	if ct.NoOvf {
		rep.Arith = "int (mathematical, overflow obligations)"
	} else {
		rep.Arith = "exact (two's-complement wrap-around via mod)"
	}
	e.curTop = f
	e.topFns[f.name] = f
	nonlinearOK = ct.Opts["nonlinear"] != ""
	defer func() { nonlinearOK = false }()
	before := len(e.obls)
	defer func() {
		if r := recover(); r != nil {
			if u, ok := r.(unsupported); ok {
				rep.Unsupported = u.msg
				e.obls = e.obls[:before]
				return
			}
			panic(r)
		}
	}()
	x := &Exec{eng: e, fn: f}
	s := &State{eng: e, env: map[types.Object]Val{}, heap: map[string]string{}, held: map[string]bool{}, ghost: map[string]Val{}, memo: map[ast.Expr]Val{}, roRefs: map[string]string{}, written: map[string]bool{}}
	s.pc = s.pc.push(mkCmp("<", "0", e.declare("alloc@0", sInt)))

	// parameters: arbitrary well-typed values
	var recv *Val
	var args []Val
	var inputs []modelVar
	addInput := func(name string, v Val) {
		f.replayInputs = append(f.replayInputs, replayInput{name: name, val: v, typ: v.T})
		ls := leavesOf(v.T)
		for i, t := range flatten(v) {
			inputs = append(inputs, modelVar{Name: name + ls[i].path, Term: t, Sort: ls[i].sort})
		}
	}
	if f.decl != nil && f.decl.Recv != nil && len(f.decl.Recv.List) == 1 {
		rt := f.sig.Recv().Type()
		v := s.freshVal("recv", rt)
		if _, isPtr := under(rt).(*types.Pointer); isPtr && !ct.Nilable {
			s.assume(mkNot(mkEq(v.S, "0")))
			e.note("method receivers are non-nil (unless declared nilable)")
		}
		recv = &v
		n := "recv"
		if len(f.decl.Recv.List[0].Names) == 1 {
			n = f.decl.Recv.List[0].Names[0].Name
		}
		addInput(n, v)
	}
	for i := 0; i < f.sig.Params().Len(); i++ {
		p := f.sig.Params().At(i)
		v := s.freshVal("p."+p.Name(), p.Type())
		args = append(args, v)
		addInput(p.Name(), v)
	}
	f.inputs = inputs
	// distinct pointer / slice parameters do not alias (stated assumption)
	if !ct.MayAlias {
		all := append([]Val{}, args...)
		if recv != nil {
			all = append(all, *recv)
		}
		var refs []struct {
			r string
			k string
		}
		for _, v := range all {
			switch v.K {
			case KInt:
				if pt, ok := under(v.T).(*types.Pointer); ok {
					refs = append(refs, struct{ r, k string }{v.S, "p:" + typeKey(pt.Elem())})
				}
			case KSlice:
				refs = append(refs, struct{ r, k string }{v.Ref, "s:" + typeKey(under(v.T).(*types.Slice).Elem())})
			}
		}
		for i := range refs {
			for j := i + 1; j < len(refs); j++ {
				if refs[i].k == refs[j].k {
					s.assume(mkOr(mkEq(refs[i].r, "0"), mkNot(mkEq(refs[i].r, refs[j].r))))
					e.note("distinct pointer/slice parameters of a function under contract do not alias (unless declared may_alias)")
				}
			}
		}
	}
	x.bindParams(s, recv, args)
	// ghost variables
	for _, g := range ct.Ghosts {
		fs := strings.Fields(g)
		if len(fs) >= 1 {
			s.ghost[fs[0]] = Val{K: KInt, S: e.fresh("ghost."+fs[0], sInt)}
		}
	}
	// requires
	pre := x.specEnvAt(s, f.body.Lbrace+1)
	pre.old = s
	for _, r := range ct.Requires {
		s.assume(pre.evalBool(r))
	}
	f.entry = s.clone()
	// witness classes of known findings are predicates over the entry state
	for i := range e.known {
		kf := &e.known[i]
		if kf.Func == f.name && kf.Class != "" && kf.Status == "known" {
			ce, err := parseSpecExpr(kf.Class, "/verif/known_findings.json", i+1)
			if err != nil {
				panic(unsupported{err.Error()})
			}
			kf.classTerm = pre.evalBool(ce)
		}
	}
	// vacuity guard: the precondition (with typing facts) must be satisfiable
	e.obls = append(e.obls, &Obligation{Name: f.name + "#cover:pre", Kind: "cover", Fn: f.name, Pos: rep.File,
		Desc: "precondition is satisfiable", PC: s.pc, Goal: "false", Cover: true, Inputs: inputs})

	end := x.execBlock(s, f.body.List)
	if end != nil {
		var vals []Val
		for _, r := range f.results {
			vals = append(vals, x.readVar(end, r, f.body.End()))
		}
		x.rets = append(x.rets, &retState{s: end, vals: vals, pos: f.body.Rbrace, ord: 0})
	}
	for i, r := range x.rets {
		st := x.runDefers(r)
		if st == nil {
			continue
		}
		x.checkPost(st, r, ct)
		// vacuity guard: at least one return path must be reachable under the contracts assumed on the way
		must := false
		if n := len(f.results); n > 0 && len(r.vals) == n {
			if lv := r.vals[n-1]; lv.K == KIface && lv.Tag == "0" && isErrorType(f.results[n-1].Type()) {
				must = true // "return ..., nil": the success path of the function
			}
		}
		e.obls = append(e.obls, &Obligation{Name: f.name + "#cover:ret" + itoa(i+1), Kind: "cover-ret", Fn: f.name, Pos: posStr(e.fset, r.pos),
			Desc: "return path is reachable", PC: st.pc, Goal: "false", Cover: true, Quick: !must, Must: must, Inputs: inputs})
	}
	rep.Obligations = len(e.obls) - before
	return
}

func (x *Exec) checkPost(s *State, r *retState, ct *Contract) {
	f := x.fn
	env := x.specEnvAt(s, f.body.Lbrace+1)
	// results by name
	for i, o := range f.results {
		if o.Name() != "" && o.Name() != "_" {
			env.vars[o.Name()] = r.vals[i]
		}
	}
	for i, n := range ct.Results {
		if i < len(r.vals) {
			env.vars[n] = r.vals[i]
		}
	}
	if len(r.vals) == 1 {
		env.vars["result"] = r.vals[0]
	}
	// parameters keep their entry values in postconditions (Go parameters are mutable locals)
	// in postconditions a parameter name denotes its value at entry (as in the caller's view of the
	// call); the current value of the mutable local is irrelevant to the caller
	for name, v := range f.specVars {
		env.vars[name+"0"] = v
		env.vars[name] = v
	}
	for _, en := range ct.Ensures {
		x.oblige(s, "post", r.pos, env.evalBool(en), "postcondition: "+en.Src)
	}
	if ct.Opts["frame"] == "assumed" {
		// the modifies clause is used at call sites but not checked against the body
		x.eng.note("frame (modifies clause) of " + f.name + " is assumed, not checked against its body")
		x.eng.assumed["frame of "+f.name] = true
	} else if ct.HasMod || len(ct.Ensures) > 0 || ct.Pure {
		x.checkFrame(s, ct)
	}
	if len(s.held) > 0 && ct.Opts["may_hold_lock"] == "" {
		var hs []string
		for h := range s.held {
			hs = append(hs, h)
		}
		sort.Strings(hs)
		x.oblige(s, "lock", r.pos, "false", "returns while holding "+strings.Join(hs, ","))
	}
}

// checkFrame: every pre-existing heap location written by the function is covered by its modifies clause.
func (x *Exec) checkFrame(s *State, ct *Contract) {
	f := x.fn
	entry := f.entry
	if len(s.oldHeap) > 0 {
		// guarded state: the frame is relative to its value when the lock was taken
		entry = entry.clone()
		for n, term := range s.oldHeap {
			entry.heap[n] = term
		}
	}
	env := x.specEnvAt(entry, f.body.Lbrace+1)
	env.old = entry
	type cell struct {
		ref    string
		lo, hi string
		all    bool
	}
	allowed := map[string][]cell{}
	var anyH []string // objects behind interface values: allowed in every pointer-cell array
	everything := false
	for _, m := range ct.Modifies {
		e := *env
		e.src = m
		switch t := m.E.(type) {
		case *ast.IndexExpr:
			b := e.eval(t.X)
			if _, isMap := under(b.T).(*types.Map); isMap {
				pres, _, _, _, names := x.mapArrays(entry, b.T)
				allowed[pres] = append(allowed[pres], cell{ref: b.S})
				for _, n := range names {
					allowed[n] = append(allowed[n], cell{ref: b.S})
				}
				continue
			}
			et := under(b.T).(*types.Slice).Elem()
			for _, l := range leavesOf(et) {
				name := "M$" + typeKey(et) + "$" + l.path
				if id, ok := t.Index.(*ast.Ident); ok && id.Name == "__all" {
					allowed[name] = append(allowed[name], cell{ref: b.Ref, lo: b.Off, hi: mkAdd(b.Off, b.Len)})
				} else if ok && id.Name == "__allcap" {
					allowed[name] = append(allowed[name], cell{ref: b.Ref, lo: b.Off, hi: mkAdd(b.Off, b.Cap)})
				} else {
					i := e.eval(t.Index)
					allowed[name] = append(allowed[name], cell{ref: b.Ref, lo: mkAdd(b.Off, i.S), hi: mkAdd(mkAdd(b.Off, i.S), "1")})
				}
			}
		case *ast.SelectorExpr:
			base := e.eval(t.X)
			pt := under(base.T).(*types.Pointer)
			if t.Sel.Name == "__allfields" {
				for _, l := range leavesOf(pt.Elem()) {
					allowed["H$"+typeKey(pt.Elem())+"$"+l.path] = append(allowed["H$"+typeKey(pt.Elem())+"$"+l.path], cell{ref: base.S})
				}
				continue
			}
			_, fv := fieldIndex(pt.Elem(), t.Sel.Name)
			for _, l := range leavesOf(fv.Type()) {
				name := "H$" + typeKey(pt.Elem()) + "$." + t.Sel.Name + l.path
				allowed[name] = append(allowed[name], cell{ref: base.S})
			}
		case *ast.StarExpr:
			base := e.eval(t.X)
			if base.K == KIface {
				anyH = append(anyH, base.Dat)
				continue
			}
			pt := under(base.T).(*types.Pointer)
			for _, l := range leavesOf(pt.Elem()) {
				name := "H$" + typeKey(pt.Elem()) + "$" + l.path
				allowed[name] = append(allowed[name], cell{ref: base.S})
			}
		case *ast.Ident:
			if t.Name == "everything" {
				everything = true
			}
		}
	}
	if everything {
		return
	}
	a0 := x.eng.declare("alloc@0", sInt)
	for _, name := range sortedStrings(s.written) {
		if name == "$alloc" || strings.HasPrefix(name, "G$") {
			if strings.HasPrefix(name, "G$") {
				// globals: must be unchanged unless listed (not supported in modifies): compare
				cur, ok1 := s.heap[name]
				old := name + "@0"
				if ok1 && cur != old {
					if _, declared := x.eng.decl[old]; declared {
						x.oblige(s, "frame", f.body.Rbrace, mkEq(cur, old), "package variable "+strings.TrimPrefix(name, "G$")+" unchanged")
					}
				}
			}
			continue
		}
		cur, present := s.heap[name]
		if !present {
			continue // not written on this path
		}
		old, ok := entry.heap[name]
		if !ok {
			old = name + "@0"
			if _, declared := x.eng.decl[old]; !declared {
				x.eng.declare(old, x.eng.decl[cur])
			}
		}
		if cur == old {
			continue
		}
		r := x.eng.fresh("fr.ref", sInt)
		cond := []string{mkCmp("<", "0", r), mkCmp("<", r, a0)}
		if strings.HasPrefix(name, "M$") || strings.HasPrefix(name, "K$") {
			if strings.HasPrefix(name, "K$") {
				// maps: whole-map granularity
				for _, c := range allowed[name] {
					cond = append(cond, mkNot(mkEq(r, c.ref)))
				}
				goal := mkImp(mkAnd(cond...), mkEq(mkSel(cur, r), mkSel(old, r)))
				x.oblige(s, "frame", f.body.Rbrace, goal, "only map contents named in modifies change ("+name+")")
				continue
			}
			i := x.eng.fresh("fr.idx", sInt)
			for _, c := range allowed[name] {
				cond = append(cond, mkNot(mkAnd(mkEq(r, c.ref), mkCmp("<=", c.lo, i), mkCmp("<", i, c.hi))))
			}
			goal := mkImp(mkAnd(cond...), mkEq(mkSel(mkSel(cur, r), i), mkSel(mkSel(old, r), i)))
			x.oblige(s, "frame", f.body.Rbrace, goal, "only slice elements named in modifies change ("+name+")")
			continue
		}
		for _, c := range allowed[name] {
			cond = append(cond, mkNot(mkEq(r, c.ref)))
		}
		for _, a := range anyH {
			cond = append(cond, mkNot(mkEq(r, a)))
		}
		goal := mkImp(mkAnd(cond...), mkEq(mkSel(cur, r), mkSel(old, r)))
		x.oblige(s, "frame", f.body.Rbrace, goal, "only fields named in modifies change ("+name+")")
	}
}

// findSlicedArrays: array-typed variables that are sliced (x[:]) and therefore live in a backing store.
func findSlicedArrays(info *types.Info, body ast.Node) map[types.Object]bool {
	out := map[types.Object]bool{}
	ast.Inspect(body, func(n ast.Node) bool {
		se, ok := n.(*ast.SliceExpr)
		if !ok {
			return true
		}
		if id, ok := unparen(se.X).(*ast.Ident); ok {
			if o, ok := info.Uses[id].(*types.Var); ok {
				if _, isArr := under(o.Type()).(*types.Array); isArr {
					out[o] = true
				}
			}
		}
		return true
	})
	return out
}

var _ = token.NoPos
