package main

import (
	"bytes"
	"context"
	"fmt"
	"math/big"
	"os"
	"os/exec"
	"path/filepath"
	"regexp"
	"sort"
	"strings"
	"sync"
	"time"
)

type builtinUF struct {
	args   []string
	ret    string
	axioms []string
	deps   []string
}

var builtinUFs = map[string]builtinUF{
	"gs.empty": {nil, sStr, []string{"(= (gs.len gs.empty) 0)"}, []string{"gs.len"}},
	"gs.len": {[]string{sStr}, sInt, []string{
		"(forall ((s Str)) (! (>= (gs.len s) 0) :pattern ((gs.len s))))",
		"(forall ((s Str)) (! (=> (= (gs.len s) 0) (= s gs.empty)) :pattern ((gs.len s))))"}, []string{"gs.empty"}},
	"gs.at": {[]string{sStr, sInt}, sInt, []string{
		"(forall ((s Str) (i Int)) (! (and (<= 0 (gs.at s i)) (<= (gs.at s i) 255)) :pattern ((gs.at s i))))"}, nil},
	"gs.cat": {[]string{sStr, sStr}, sStr, []string{
		"(forall ((a Str) (b Str)) (! (= (gs.len (gs.cat a b)) (+ (gs.len a) (gs.len b))) :pattern ((gs.cat a b))))"}, []string{"gs.len"}},
	"gs.sub": {[]string{sStr, sInt, sInt}, sStr, []string{
		"(forall ((a Str) (i Int) (j Int)) (! (=> (and (<= 0 i) (<= i j) (<= j (gs.len a))) (= (gs.len (gs.sub a i j)) (- j i))) :pattern ((gs.sub a i j))))",
		"(forall ((a Str) (i Int) (j Int) (k Int)) (! (=> (and (<= 0 i) (<= 0 k) (< k (- j i)) (<= j (gs.len a))) (= (gs.at (gs.sub a i j) k) (gs.at a (+ i k)))) :pattern ((gs.at (gs.sub a i j) k))))"},
		[]string{"gs.len", "gs.at"}},
	"gs.ofbytes": {[]string{sAI, sInt, sInt}, sStr, []string{
		"(forall ((a (Array Int Int)) (o Int) (n Int)) (! (=> (<= 0 n) (= (gs.len (gs.ofbytes a o n)) n)) :pattern ((gs.ofbytes a o n))))",
		// conditional on the element being a byte: gs.ofbytes is total over all integer arrays, and an
		// unconditional equation would contradict the range axiom of gs.at (found by the axiom cover check)
		"(forall ((a (Array Int Int)) (o Int) (n Int) (k Int)) (! (=> (and (<= 0 k) (< k n) (<= 0 (select a (+ o k))) (<= (select a (+ o k)) 255)) (= (gs.at (gs.ofbytes a o n) k) (select a (+ o k)))) :pattern ((gs.at (gs.ofbytes a o n) k))))",
		"(forall ((a (Array Int Int)) (o Int) (n Int) (b (Array Int Int)) (p Int)) (! (=> (forall ((k Int)) (=> (and (<= 0 k) (< k n)) (= (select a (+ o k)) (select b (+ p k))))) (= (gs.ofbytes a o n) (gs.ofbytes b p n))) :pattern ((gs.ofbytes a o n) (gs.ofbytes b p n))))"},
		[]string{"gs.len", "gs.at"}},
	"gs.ofrune":  {[]string{sInt}, sStr, []string{"(forall ((r Int)) (! (and (<= 1 (gs.len (gs.ofrune r))) (<= (gs.len (gs.ofrune r)) 4)) :pattern ((gs.ofrune r))))", "(and (= (gs.len (gs.ofrune 0)) 1) (= (gs.at (gs.ofrune 0) 0) 0))"}, []string{"gs.len", "gs.at"}},
	"gs.runeat":  {[]string{sStr, sInt}, sInt, nil, nil},
	"gs.runelen": {[]string{sStr, sInt}, sInt, nil, nil},
	"gs.lt":      {[]string{sStr, sStr}, sBool, nil, nil},
	"sq.canon": {[]string{sAI, sInt, sInt}, sAI, []string{
		"(forall ((a (Array Int Int)) (o Int) (n Int) (i Int)) (! (= (select (sq.canon a o n) i) (ite (and (<= 0 i) (< i n)) (select a (+ o i)) 0)) :pattern ((select (sq.canon a o n) i))))"}, nil},
	"sq.cat": {[]string{sAI, sInt, sAI, sInt}, sAI, []string{
		"(forall ((a (Array Int Int)) (n Int) (b (Array Int Int)) (m Int) (i Int)) (! (= (select (sq.cat a n b m) i) (ite (and (<= 0 i) (< i n)) (select a i) (ite (and (<= n i) (< i (+ n m))) (select b (- i n)) 0))) :pattern ((select (sq.cat a n b m) i))))"}, nil},
	"sq.ofstr": {[]string{sStr}, sAI, []string{
		"(forall ((s Str) (i Int)) (! (= (select (sq.ofstr s) i) (ite (and (<= 0 i) (< i (gs.len s))) (gs.at s i) 0)) :pattern ((select (sq.ofstr s) i))))"}, []string{"gs.len", "gs.at"}},
	"nl.div": {[]string{sInt, sInt}, sInt, []string{
		"(forall ((a Int) (b Int)) (! (=> (and (>= a 0) (> b 0)) (and (<= 0 (nl.div a b)) (<= (nl.div a b) a))) :pattern ((nl.div a b))))"}, nil},
	"nl.mod": {[]string{sInt, sInt}, sInt, []string{
		"(forall ((a Int) (b Int)) (! (=> (and (>= a 0) (> b 0)) (and (<= 0 (nl.mod a b)) (< (nl.mod a b) b))) :pattern ((nl.mod a b))))"}, nil},
	"bit.and":    {[]string{sInt, sInt}, sInt, nil, nil},
	"bit.or":     {[]string{sInt, sInt}, sInt, nil, nil},
	"bit.xor":    {[]string{sInt, sInt}, sInt, []string{"(forall ((a Int) (b Int)) (! (= (bit.xor (bit.xor a b) b) a) :pattern ((bit.xor (bit.xor a b) b))))", "(forall ((a Int) (b Int)) (! (= (bit.xor a b) (bit.xor b a)) :pattern ((bit.xor a b))))"}, nil},
	"bit.shl":    {[]string{sInt, sInt}, sInt, nil, nil},
	"bit.shr":    {[]string{sInt, sInt}, sInt, nil, nil},
	"bit.andnot": {[]string{sInt, sInt}, sInt, nil, nil},
	"flt.add":    {[]string{sInt, sInt}, sInt, nil, nil},
	"flt.sub":    {[]string{sInt, sInt}, sInt, nil, nil},
	"flt.mul":    {[]string{sInt, sInt}, sInt, nil, nil},
	"flt.div":    {[]string{sInt, sInt}, sInt, nil, nil},
	"flt.neg":    {[]string{sInt}, sInt, nil, nil},
	"flt.lt":     {[]string{sInt, sInt}, sBool, nil, nil},
	"flt.ofint":  {[]string{sInt}, sInt, nil, nil},
	"flt.toint":  {[]string{sInt}, sInt, nil, nil},
	"implements": {[]string{sInt, sInt}, sBool, nil, nil},
	"chan.cap":   {[]string{sInt}, sInt, nil, nil},
}

var tokRe = regexp.MustCompile(`[^\s()]+`)

func tokensOf(texts ...string) map[string]bool {
	m := map[string]bool{}
	for _, t := range texts {
		for _, tok := range tokRe.FindAllString(t, -1) {
			m[tok] = true
		}
	}
	return m
}

// smtText renders one obligation as an SMT-LIB2 script. extra are additional assertions (model refinement).
func (e *Engine) smtText(o *Obligation, extra []string, getValues []string) string {
	facts := o.PC.factsSince(nil)
	goal := o.Goal
	toks := tokensOf(append(append([]string{goal}, facts...), extra...)...)
	if o.AllAxioms {
		// consistency check of the background theory: every axiom family this run used
		for n := range e.usedUF {
			toks[n] = true
		}
		for n := range builtinUFs {
			if strings.HasPrefix(n, "gs.") || strings.HasPrefix(n, "sq.") {
				toks[n] = true
			}
		}
		for _, n := range e.db.UFOrder {
			toks[n] = true
			toks[n+".arr"] = true
			toks[n+".len"] = true
		}
	}
	// axioms from spec files: include when one of their symbols is mentioned (closure)
	var axTexts []string
	axUsed := map[int]bool{}
	ufNeeded := map[string]bool{}
	changed := true
	for changed {
		changed = false
		for name := range builtinUFs {
			if toks[name] && !ufNeeded[name] {
				ufNeeded[name] = true
				changed = true
				for _, ax := range builtinUFs[name].axioms {
					for t := range tokensOf(ax) {
						if !toks[t] {
							toks[t] = true
						}
					}
				}
				for _, d := range builtinUFs[name].deps {
					toks[d] = true
				}
			}
		}
		for i, ax := range e.axiomTexts {
			if axUsed[i] {
				continue
			}
			hit := false
			for _, sym := range ax.syms {
				if toks[sym] {
					hit = true
					break
				}
			}
			if hit {
				axUsed[i] = true
				changed = true
				axTexts = append(axTexts, ax.text)
				for t := range tokensOf(ax.text) {
					toks[t] = true
				}
			}
		}
	}
	var b strings.Builder
	b.WriteString("(set-option :produce-models true)\n(set-logic ALL)\n(declare-sort Str 0)\n")
	// UFs
	var ufn []string
	for n := range ufNeeded {
		ufn = append(ufn, n)
	}
	sort.Strings(ufn)
	for _, n := range ufn {
		u := builtinUFs[n]
		fmt.Fprintf(&b, "(declare-fun %s (%s) %s)\n", n, strings.Join(u.args, " "), u.ret)
	}
	for _, n := range e.db.UFOrder {
		u := e.db.UFs[n]
		if u.Ret == "Seq" {
			if toks[n+".arr"] || toks[n+".len"] {
				fmt.Fprintf(&b, "(declare-fun %s.arr (%s) %s)\n(declare-fun %s.len (%s) Int)\n", n, strings.Join(u.Args, " "), sAI, n, strings.Join(u.Args, " "))
			}
			continue
		}
		if toks[n] {
			ret := u.Ret
			if strings.HasPrefix(ret, "Seq:") {
				ret = sAI
			}
			fmt.Fprintf(&b, "(declare-fun %s (%s) %s)\n", n, strings.Join(u.Args, " "), ret)
		}
	}
	var dn []string
	for n := range e.dynUF {
		if toks[n] {
			dn = append(dn, n)
		}
	}
	sort.Strings(dn)
	for _, n := range dn {
		u := e.dynUF[n]
		fmt.Fprintf(&b, "(declare-fun %s (%s) %s)\n", n, strings.Join(u.Args, " "), u.Ret)
	}
	// string / float literals
	var usedLits []string
	for _, v := range e.strLitOrder {
		if toks[e.strLits[v]] {
			usedLits = append(usedLits, v)
		}
	}
	for _, v := range usedLits {
		fmt.Fprintf(&b, "(declare-const %s Str)\n", e.strLits[v])
	}
	var fl []string
	for _, c := range e.floatLits {
		if toks[c] {
			fl = append(fl, c)
		}
	}
	sort.Strings(fl)
	for _, c := range fl {
		fmt.Fprintf(&b, "(declare-const %s Int)\n", c)
	}
	if len(fl) > 1 {
		fmt.Fprintf(&b, "(assert (distinct %s))\n", strings.Join(fl, " "))
	}
	// constants
	var symAx []string
	for _, n := range e.declOrder {
		if toks[n] {
			fmt.Fprintf(&b, "(declare-const %s %s)\n", n, e.decl[n])
			symAx = append(symAx, e.symAxioms[n]...)
		}
	}
	for _, ax := range symAx {
		fmt.Fprintf(&b, "(assert %s)\n", ax)
	}
	// axioms
	for _, n := range ufn {
		for _, ax := range builtinUFs[n].axioms {
			fmt.Fprintf(&b, "(assert %s)\n", ax)
		}
	}
	if len(usedLits) > 0 {
		if !ufNeeded["gs.len"] {
			// literals need len/at declared
		}
		for _, v := range usedLits {
			c := e.strLits[v]
			if ufNeeded["gs.len"] {
				fmt.Fprintf(&b, "(assert (= (gs.len %s) %d))\n", c, len(v))
			}
			if ufNeeded["gs.at"] && len(v) <= 64 {
				for i := 0; i < len(v); i++ {
					fmt.Fprintf(&b, "(assert (= (gs.at %s %d) %d))\n", c, i, v[i])
				}
			}
		}
		names := []string{}
		for _, v := range usedLits {
			names = append(names, e.strLits[v])
		}
		if toks["gs.empty"] {
			names = append(names, "gs.empty")
		}
		if len(names) > 1 {
			fmt.Fprintf(&b, "(assert (distinct %s))\n", strings.Join(names, " "))
		}
	}
	for _, ax := range axTexts {
		fmt.Fprintf(&b, "(assert %s)\n", ax)
	}
	// nl.mod / nl.div agree with mod / div for the integer constants that occur in the function
	if ufNeeded["nl.mod"] || ufNeeded["nl.div"] {
		var cs []string
		for c := range e.litConsts {
			cs = append(cs, c)
		}
		sort.Strings(cs)
		if len(cs) > 48 {
			cs = cs[:48]
		}
		for _, c := range cs {
			if ufNeeded["nl.mod"] {
				fmt.Fprintf(&b, "(assert (forall ((a Int)) (! (= (nl.mod a %s) (mod a %s)) :pattern ((nl.mod a %s)))))\n", c, c, c)
				// ground instances for constant dividend and constant divisor
				cn, _ := new(big.Int).SetString(c, 10)
				for _, d := range cs {
					dn, _ := new(big.Int).SetString(d, 10)
					if cn != nil && dn != nil && dn.Sign() > 0 && cn.Cmp(dn) >= 0 {
						fmt.Fprintf(&b, "(assert (= (nl.mod %s %s) %s))\n", c, d, new(big.Int).Mod(cn, dn).String())
					}
				}
			}
			if ufNeeded["nl.div"] {
				fmt.Fprintf(&b, "(assert (forall ((a Int)) (! (= (nl.div a %s) (div a %s)) :pattern ((nl.div a %s)))))\n", c, c, c)
			}
		}
	}
	for _, f := range facts {
		fmt.Fprintf(&b, "(assert %s)\n", f)
	}
	for _, f := range extra {
		fmt.Fprintf(&b, "(assert %s)\n", f)
	}
	fmt.Fprintf(&b, "(assert (not %s))\n(check-sat)\n", goal)
	if len(getValues) > 0 {
		fmt.Fprintf(&b, "(get-value (%s))\n", strings.Join(getValues, " "))
	}
	return b.String()
}

type axiomText struct {
	name string
	text string
	syms []string
}

type solverResult struct {
	status string
	solver string
	out    string
	secs   float64
}

var solverCmds = [][]string{
	{"z3-new", "-smt2"},
	{"cvc5", "--lang=smt2", "--full-saturate-quant"},
	{"z3", "-smt2"},
}

func runOne(ctx context.Context, cmd []string, file string, timeout time.Duration) solverResult {
	t0 := time.Now()
	args := append([]string{}, cmd[1:]...)
	switch cmd[0] {
	case "z3", "z3-new":
		args = append(args, fmt.Sprintf("-T:%d", int(timeout.Seconds())+1))
	case "cvc5":
		args = append(args, fmt.Sprintf("--tlimit=%d", timeout.Milliseconds()))
	}
	args = append(args, file)
	c := exec.CommandContext(ctx, cmd[0], args...)
	var out bytes.Buffer
	c.Stdout = &out
	c.Stderr = &out
	_ = c.Run()
	res := solverResult{solver: cmd[0], out: out.String(), secs: time.Since(t0).Seconds()}
	first := strings.TrimSpace(strings.SplitN(out.String(), "\n", 2)[0])
	switch first {
	case "sat", "unsat", "unknown":
		res.status = first
	default:
		if strings.Contains(out.String(), "timeout") || ctx.Err() != nil {
			res.status = "timeout"
		} else {
			res.status = "error"
		}
	}
	return res
}

// race runs the solvers concurrently; the first definite answer wins.
func race(file string, timeout time.Duration) solverResult {
	// stage 1: the strongest solver alone, briefly
	ctx1, cancel1 := context.WithTimeout(context.Background(), 3*time.Second)
	r := runOne(ctx1, solverCmds[0], file, 2*time.Second)
	cancel1()
	if r.status == "sat" || r.status == "unsat" {
		return r
	}
	ctx, cancel := context.WithTimeout(context.Background(), timeout+2*time.Second)
	defer cancel()
	ch := make(chan solverResult, len(solverCmds))
	for _, cmd := range solverCmds {
		go func(cmd []string) { ch <- runOne(ctx, cmd, file, timeout) }(cmd)
	}
	var last solverResult
	var all []string
	t0 := time.Now()
	for range solverCmds {
		r := <-ch
		all = append(all, r.solver+": "+r.status)
		if r.status == "sat" || r.status == "unsat" {
			cancel()
			r.secs = time.Since(t0).Seconds() + 2
			return r
		}
		if r.status == "error" {
			all[len(all)-1] += " " + strings.TrimSpace(firstLines(r.out, 3))
		}
		last = r
	}
	if last.status != "unknown" {
		last.status = "timeout"
	}
	for _, a := range all {
		if strings.Contains(a, "unknown") {
			last.status = "unknown"
		}
	}
	last.out = strings.Join(all, "; ")
	last.solver = "all"
	last.secs = time.Since(t0).Seconds() + 2
	return last
}

func firstLines(s string, n int) string {
	ls := strings.Split(s, "\n")
	if len(ls) > n {
		ls = ls[:n]
	}
	return strings.Join(ls, " | ")
}

// solveAll discharges the obligations in parallel.
func (e *Engine) solveAll(workdir string, timeout time.Duration, par int) {
	os.MkdirAll(workdir, 0o755)
	var wg sync.WaitGroup
	sem := make(chan struct{}, par)
	for i, o := range e.obls {
		o.File = filepath.Join(workdir, fmt.Sprintf("%04d_%s.smt2", i, sanitize(o.Name)))
		var vals []string
		for _, in := range o.Inputs {
			if in.Sort == sInt || in.Sort == sBool {
				vals = append(vals, in.Term)
			}
		}
		txt := e.smtText(o, nil, dedup(vals))
		if len(txt) > 4<<20 {
			o.Status = "toolarge"
			continue
		}
		os.WriteFile(o.File, []byte(txt), 0o644)
		wg.Add(1)
		sem <- struct{}{}
		go func(o *Obligation) {
			defer wg.Done()
			defer func() { <-sem }()
			if o.Quick {
				ctx, cancel := context.WithTimeout(context.Background(), 4*time.Second)
				r := runOne(ctx, solverCmds[0], o.File, 3*time.Second)
				cancel()
				if r.status != "sat" && r.status != "unsat" {
					// an inconsistency that z3 5.x does not see quickly may be seen by the old z3
					ctx2, cancel2 := context.WithTimeout(context.Background(), 4*time.Second)
					r2 := runOne(ctx2, solverCmds[2], o.File, 3*time.Second)
					cancel2()
					if r2.status == "unsat" {
						r = r2
					}
				}
				o.Status, o.Solver, o.Secs, o.Raw = r.status, r.solver, r.secs, firstLines(r.out, 2)
				return
			}
			to := timeout
			if o.Cover && to > 6*time.Second {
				to = 6 * time.Second // vacuity guards only look for a quick refutation
			}
			r := race(o.File, to)
			o.Status, o.Solver, o.Secs, o.Raw = r.status, r.solver, r.secs, r.out
			if r.status == "sat" {
				o.Model = parseValues(r.out)
			}
		}(o)
	}
	wg.Wait()
	// second chance for undecided obligations: a timeout under machine load must not become an
	// alarm.  Few at a time, four times the budget.  (On a tree where everything discharges this costs nothing.)
	var undecided []*Obligation
	for _, o := range e.obls {
		if !o.Cover && !o.Quick && (o.Status == "timeout" || o.Status == "unknown") {
			undecided = append(undecided, o)
		}
	}
	if n := len(undecided); n > 0 && n <= 16 && os.Getenv("VERIF_NO_RETRY") == "" {
		sem2 := make(chan struct{}, 4)
		var wg2 sync.WaitGroup
		for _, o := range undecided {
			wg2.Add(1)
			sem2 <- struct{}{}
			go func(o *Obligation) {
				defer wg2.Done()
				defer func() { <-sem2 }()
				r := race(o.File, 4*timeout)
				if r.status == "unsat" || r.status == "sat" {
					o.Status, o.Solver, o.Raw = r.status, r.solver, r.out
					if r.status == "sat" {
						o.Model = parseValues(r.out)
					}
				}
				o.Secs += r.secs
			}(o)
		}
		wg2.Wait()
	}
}

// recheck re-runs one obligation with extra assumptions (known-finding class exclusion, model refinement).
func (e *Engine) recheck(o *Obligation, extra []string, timeout time.Duration) solverResult {
	var vals []string
	for _, in := range o.Inputs {
		if in.Sort == sInt || in.Sort == sBool {
			vals = append(vals, in.Term)
		}
	}
	txt := e.smtText(o, extra, dedup(vals))
	file := strings.TrimSuffix(o.File, ".smt2") + ".re.smt2"
	if o.File == "" {
		file = filepath.Join(os.TempDir(), "govc-recheck.smt2")
	}
	os.WriteFile(file, []byte(txt), 0o644)
	return race(file, timeout)
}

// quickValid: does the path condition entail goal? (short solver call used while generating VCs)
func (e *Engine) quickValid(pc *pcNode, goal string) bool {
	key := goal + "@" + fmt.Sprintf("%p", pc)
	if v, ok := e.quickCache[key]; ok {
		return v
	}
	o := &Obligation{Name: "quick", PC: pc, Goal: goal}
	txt := e.smtText(o, nil, nil)
	e.quickCtr++
	file := filepath.Join(os.TempDir(), fmt.Sprintf("govc-quick-%d-%d.smt2", os.Getpid(), e.quickCtr))
	os.WriteFile(file, []byte(txt), 0o644)
	defer os.Remove(file)
	ctx, cancel := context.WithTimeout(context.Background(), 4*time.Second)
	defer cancel()
	r := runOne(ctx, solverCmds[0], file, 3*time.Second)
	res := r.status == "unsat"
	e.quickCache[key] = res
	return res
}

func dedup(xs []string) []string {
	seen := map[string]bool{}
	var out []string
	for _, x := range xs {
		if !seen[x] {
			seen[x] = true
			out = append(out, x)
		}
	}
	return out
}

// parseValues parses the output of (get-value (...)): ((t v) (t v) ...).
func parseValues(out string) map[string]string {
	i := strings.Index(out, "((")
	if i < 0 {
		return nil
	}
	sx, _ := parseSexp(out[i:])
	m := map[string]string{}
	for _, pair := range sx.list {
		if len(pair.list) == 2 {
			m[pair.list[0].String()] = pair.list[1].String()
		}
	}
	return m
}

type sexp struct {
	atom string
	list []*sexp
	leaf bool
}

func (s *sexp) String() string {
	if s.leaf {
		return s.atom
	}
	var p []string
	for _, c := range s.list {
		p = append(p, c.String())
	}
	return "(" + strings.Join(p, " ") + ")"
}

func parseSexp(s string) (*sexp, string) {
	s = strings.TrimLeft(s, " \t\r\n")
	if s == "" {
		return &sexp{leaf: true}, ""
	}
	if s[0] == '(' {
		s = s[1:]
		n := &sexp{}
		for {
			s = strings.TrimLeft(s, " \t\r\n")
			if s == "" {
				return n, ""
			}
			if s[0] == ')' {
				return n, s[1:]
			}
			var c *sexp
			c, s = parseSexp(s)
			n.list = append(n.list, c)
		}
	}
	j := 0
	if s[0] == '"' {
		j = 1
		for j < len(s) && s[j] != '"' {
			j++
		}
		j++
		if j > len(s) { // unterminated string (truncated solver output)
			j = len(s)
		}
	} else {
		for j < len(s) && !strings.ContainsRune(" \t\r\n()", rune(s[j])) {
			j++
		}
	}
	return &sexp{atom: s[:j], leaf: true}, s[j:]
}
