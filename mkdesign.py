#!/usr/bin/env python3
"""Builds DESIGN.md = DESIGN.head.md + section 3 (generated from props/*.json and selftest/) + DESIGN.tail.md."""
import json, glob, os, re
ROOT = os.path.dirname(os.path.abspath(__file__))
props = {json.loads(l)["id"]: json.loads(l) for l in open(os.path.join(ROOT, "properties.jsonl"))}
known = json.load(open(os.path.join(ROOT, "known_findings.json")))
na = json.load(open(os.path.join(ROOT, "props", "not_applicable.json")))
muts = {}
for f in sorted(glob.glob(os.path.join(ROOT, "selftest", "mustfail", "*.diff"))):
    n = os.path.basename(f)[:-5]
    muts.setdefault(n.split("_")[0], []).append(n.split("_", 1)[1])
SUMMARY = {
 "C01": "Box invariant of sequenceBox: `applyPending` applies only a contiguous chain starting at `state` (spec macro `chain`), in order, and moves `state` to the chain's end; `handle` never applies an update at or below `state`; call-site rules pin what reaches the apply callback and when `setState` may run.",
 "C02": "`internalState.getDifference`/`applyDifference…`: every update of a fetched difference is handed to the handler (call-site rules on `handleUpdates`, `dispatch`, `setState`) before the local position advances past it. Two obligations fail on the pinned tree and are recorded as known findings (class-free, so not counted as discharged).",
 "C03": "Every `StateStorage.Set*`/`SetChannelPts` call site carries the obligation 'everything up to the value written has been dispatched' (ghost `delivered`), which is the crash-point invariant because the persisted position changes nowhere else. One call site fails (known finding).",
 "C04": "`countPadding` ∈ [12,1024] ∧ (l+pad) ≡ 0 mod 16; `encryptMessage` emits key id, msg_key(payload‖padding, side) and IGE-encryption of exactly that under keys derived from it, payload preserved as prefix; `Decrypt` accepts, once key id/alignment/msg_key/header are right, exactly when 0 ≤ len ≡ 0 mod 4 and padding ≤ 1024 (so the sender's output, empty payload included, is accepted).",
 "C05": "`decryptMessage` succeeds ⇔ key id equal ∧ whole blocks, and decrypts with the opposite side's keys; `Decrypt` success ⇒ carried msg_key = msg_key recomputed from the decrypted bytes for the opposite side (reflection and foreign keys fail there); any error ⇒ nil result.",
 "C06": "`msgKeyLarge`, `messageKey`, `sha256a/b`, `aesKey/aesIV`, `MessageKey`, `Keys`, `sha1a–d`, `MessageKeyV1`, `KeysV1` equal the formulas of the MTProto description transcribed as spec macros over `sha256`/`sha1`, `cat`, `sub` (streaming hash model: a hash accumulates what is written).",
 "C07": "`MessageIDBuf.Consume`: the buffer holds the k largest ids seen, an id is accepted iff it is new and above the minimum once full; loop invariant over the real minimum.",
 "C08": "`MessageIDGen.New` (monitor on g.mux): result > previous result, ≡ 0 mod 4 (+type bits), time part monotone; `Conn.nextMsgSeq`: seq_no = 2·(content messages before) (+1), id taken in the same critical section.",
 "C10": "Ghost flags set by call-site rules on `DecryptExchangeAnswer`, `CheckDH`, `CheckDHParams` (each called on the received values) and a rule at the only success point (`NewSessionID`) demanding all three nonce echoes per answer, the fingerprint of a held key, and `nonceHash1 == v.NewNonceHash1`; `ensures err == nil ⇒ that point was reached`.",
 "C11": "`DecryptExchangeAnswer`: `err == nil ⇒ dst != nil ∧ SHA1(dst) == data_with_hash[0:20]` and `GuessDataWithHash` finds the padding length.",
 "C12": "Call-site rules on `Recv`/`Send`: `0 ≤ ctxbound(ctx) ≤ max(timeout,0)` at every transport call of `Run`, `tryRead`, `writeUnencrypted`, `readUnencrypted`.",
 "C13": "`InRange`, `CheckGP` (table of residues), `checkPrime`, `CheckDH`, `CheckDHParams` accept exactly the inputs of the specification (biconditional postconditions over `*big.Int` values, 2^1984 margin).",
 "C14": "`RSAPad`: call-site rules at `rsaEncrypt` and `EncryptBlocks` pin the layout handed to RSA (see level text); `reverseBytes` reverses in place (loop invariants incl. an element frame); `DecodeRSAPad`: xor, IGE decryption with zero IV, reversal, and `bytes.Equal(hash, SHA256(temp_key‖data))` must have returned true on the success path.",
 "C15": "`checkInput` against `crypto.CheckDH`'s contract; `SRP.Hash` / `SRP.NewHash`: `err == nil ⇒ bitlen(p) = 2048 ∧ gp(g, p) ∧ isprime(p) ∧ isprime((p−1)/2)` for the received (g, p). `SRP.Hash`: 24 call-site rules pin every argument of `hash` (5 calls), `xor32`, `FillBytes`, `computeXV` and `bigExp` (2 calls) to the specification's data flow, with ghosts for u, k, x, v and the hash results; `seq(A) = padbig(powmod(g, a, p))` as a postcondition, `M1` = result of the fifth hash call. Primitives (SHA-256, PBKDF2, padding, modular exponentiation) are uninterpreted; verifier acceptance is an undecided clause.",
 "C16": "Senders: exactly two writes, header (abridged: one byte or 0x7f+3 bytes; intermediate: LE32 length) then the payload bytes; receivers: header parsed, then one `ReadFull` of exactly the announced length into the buffer (padded variant strips len mod 4). `Full.Read`/`Full.Write`: `readFull`/`writeFull` get the counter's entry value and the atomic increment happens exactly once whenever a frame was read/written (ghost count of `AddInt64`, wherever it is placed), so an error-code frame advances the receive counter like any other.",
 "C17": "`readLen`, `readFull`, `readAbridged`, `readIntermediate`, `checkProtocolError`: safety obligations plus `alloclimit = 16 MiB + 8` on arbitrary streams.",
 "C18": "`generateInit`: `err == nil ⇒ ¬reserved(init)`; `generateKeys`: header[0:56] = init ∧ ¬reserved(header), stream key/IV attributes equal header[8:40]/[40:56]; `getDecryptInit` reverses init[8:56]; `createStreams` keys; `Accept` decrypts with the stream keyed from the received bytes 8..56.",
 "C19": "`FakeTLS.Write`: every record passed to `writeRecord` has 1 ≤ len ≤ 65535, records partition the input in order, n == len(b) on success.",
 "C20": "`Put*`/`*` pairs of bin.Buffer: appended bytes = little-endian formula, decoders return the value and consume exactly the encoded length, `encodeBytes`/`decodeBytes` (253/254 boundary, padding to 4). `Int128`/`Int256`/`PutInt128`/`PutInt256`: 16/32 raw bytes, element-wise; `Double`/`Int53`/`PutDouble`/`PutInt53`: 8 bytes; short input is an error that consumes nothing.",
 "C21": "50 generated decoders of package mt: safety obligations + `alloclimit = 1024` on arbitrary bytes.",
 "C22": "`Message.Decode`: 0 ≤ Bytes ≤ 1 MiB, body = next Bytes bytes, consumed 16+Bytes; `Message.Encode` refuses exactly what Decode refuses; `Result.Decode`, `UnencryptedMessage.Decode` consumed counts; `GZIP.Decode`: reader limited to 10 MiB and success ⇒ total < 10 MiB. `Message.Decode` also accepts every well-formed element (≥16 bytes, announced length ≤ 1 MiB inclusive, body present), so encoder and decoder agree on the boundary.",
 "C23": "Safety obligations for all `handle*` functions and `gzip`; call-site rules route `NotifyResult/NotifyError/NotifyAcks/storeSalt` under the decoded ids; `NotifyResult/NotifyError` call exactly `e.rpc[msgID]`; a handled pong leaves no entry for its id.",
 "C24": "`Do`: handler present under `req.MsgID` when `retryUntilAck` is called, absent on return; `Do$1` (the handler): `Decode`/`retryClose` only after winning the CAS; routing as in C23.",
 "C25": "`retryUntilAck`: ghost `sends` counts `e.send` calls, each with (MsgID, SeqNo, Input) of the request, loop invariant `sends == retries+1 ∧ retries < max(maxRetries,1)`, timer armed/re-armed with retryInterval; `NotifyAcks` removes exactly the acked ids (all of them) and registers nothing; `Do` never calls `send` itself.",
 "C26": "`Do`/`retryUntilAck`/`ForceClose`/`errRetryableOnNewConn` (both copies)/`invokeConn`: see decision table; error chains via the uninterpreted relation `eis` with `Wrap` extension, sentinel distinctness and `Context.Err ∈ {nil, Canceled, DeadlineExceeded}`.",
 "C27": "`DC.acquire`: monitor invariant `max < 1 ∨ total ≤ max` on c.mu. `DC.dead`: `total' = total − won`, where the ghost `won` is set only by a call-site rule on `Bool.Swap(true)` / `CompareAndSwap(false, true)` applied to `r.deleted` (one atomic read-modify-write; a `Load` followed by a `Store` sets nothing), so each death is counted once; monitor invariants `total ≥ 0` and 'no nil pointer in `free`' re-established at unlock; `poolConn.deleted` non-nil by the syntactic `nonnil` check.",
 "C28": "`DC.acquire`, `DC.Invoke`: ghost ownership of the created connection: on every return it is lent, free, in transfer or dead.",
 "C30": "`dcSessionFromMTProto`, `saveSession`, `onSession`, `onCDNSession`, `restoreConnection`: see decision table.",
 "C31": "`StoreSession` = `writeFileAtomic`: ghost state machine over the os calls (create temp in same dir, write all, sync, close, rename; temp removed on error).",
 "C32": "`computeParts`-style arithmetic (part size bounds, count = ceil(size/part), big-file threshold).",
 "C33": "See decision table.",
 "C34": "`largestCDNValidLimit`, `buildCDNRequestPlan`: every planned window satisfies the CDN constraints (4 KiB aligned, divides 1 MiB, within one MiB block) and the windows tile the requested range exactly. `cdn.verifyChunk`: loop invariant 'the scan position is the chunk start or the end of the window last looked up', rule 'the window is looked up for the current position' — no stretch between two windows is skipped.",
 "C36": "`entitySorter.Less(i,j) ⇔ off_i < off_j ∨ (off_i == off_j ∧ len_i > len_j)` — fails for `off_i > off_j ∧ len_i > len_j` (known finding, class = that input region).",
 "C38": "`rleEncode`/`rleDecode`: `nooverflow` on the run counter, safety.",
 "C39": "See decision table.",
 "C40": "`AsFloodWait`, `FloodWait`: timer = argument·1 s + 1 s, `flood ⇒ rerr == err`, nil passes through, errors stay errors.",
 "C41": "`Salts.Get`: ∀∃ invariants (`at()` absolute positions): returned salt ∈ stored ∧ ValidUntil > deadline; what is kept was stored; `updateSalt`: deadline = Now()+≥5 min, store only if found; `session`/`newEncryptedMessage`: the salt attached is the refreshed `c.salt`; `Invoke`: ≤ 2 sends, second only for code 48 after `storeSalt(NewSalt)` and `salts.Reset()`, same id/seq.",
 "C42": "See decision table.",
 "C43": "`Ping`/`pingDelayDisconnect`: the id registered, sent and unregistered is one value; nil result only via the pong channel; `pingLoop`: every ping under `WithTimeout(pingTimeout)`, a failed ping ends the loop with an error; `handlePong`: removes at most one entry, its own.",
}
NOTES = {
 "C35": "Observation (not a check result): `fixEntities` shortens only the entities of the last formatted block; an earlier entity that encloses the trimmed tail keeps its length.",
}
out = ["## 3. Property by property (generated from the ledgers `props/Cnn.json`)\n",
       "For each claimed property: the functions under contract (their contracts are in the named package's",
       "`zz_contracts_verif.go`), the stated assumptions, what is explicitly not decided, recorded findings,",
       "and the must-fail mutations (`selftest/mustfail`, each detected on the last full run; `seed_*` are the",
       "sub-agent seeds of section 7).\n"]
for pid in sorted(props):
    title = props[pid].get("title", "")
    f = os.path.join(ROOT, "props", pid + ".json")
    if not os.path.exists(f):
        out.append("### %s — %s  (not applicable)\n" % (pid, title))
        out.append(na.get(pid, "contracts not completed") + "\n")
        if pid in NOTES:
            out.append(NOTES[pid] + "\n")
        continue
    d = json.load(open(f))
    out.append("### %s — %s\n" % (pid, title))
    if pid in SUMMARY:
        out.append("*Contracts:* " + SUMMARY[pid])
    by = {}
    for fn in d["functions"]:
        by.setdefault(fn["pkg"], []).append(fn["key"])
    out.append("*Functions under contract:* " + "; ".join("`%s`: %s" % (p, ", ".join(ks)) for p, ks in by.items()) + ".")
    if d.get("also"):
        out.append("*Also re-checked under this id (sub-ledgers):* " + ", ".join(d["also"]) + ".")
    if d.get("bounded_functions"):
        out.append("*Bounded stand-ins (not proofs):* " + "; ".join("%s.%s — %s" % (b["pkg"], b["key"], b["bound"]) for b in d["bounded_functions"]) + ".")
    if d.get("assumptions"):
        out.append("*Assumed:* " + "; ".join(d["assumptions"]) + ".")
    if d.get("undecided_clauses"):
        out.append("*Not decided:* " + "; ".join(d["undecided_clauses"]) + ".")
    ks = [k for k in known if k["property"] == pid]
    for k in ks:
        if k["status"] == "known":
            out.append("*Known finding (reported as KNOWN-FINDING, exit 0):* %s — %s" % (k.get("func", ""), k["what"]))
        else:
            out.append("*Fixed (%s):* %s — %s" % (k.get("commit", ""), k.get("func", ""), k["what"]))
    if pid in muts:
        out.append("*Must-fail corpus:* " + ", ".join(muts[pid]) + ".")
    if pid in NOTES:
        out.append(NOTES[pid])
    out.append("")
head = open(os.path.join(ROOT, "DESIGN.head.md")).read()
tail = open(os.path.join(ROOT, "DESIGN.tail.md")).read()
open(os.path.join(ROOT, "DESIGN.md"), "w").write(head + "\n".join(out) + "\n" + tail)
print("DESIGN.md written:", len((head + "\n".join(out) + tail).splitlines()), "lines")
