#!/bin/bash
# runs every claimed property's quick check; prints one summary line per property
cd /verif
for f in props/C*.json; do p=$(basename $f .json); out=$(./bin/govc check -prop $p -noreplay -noevidence 2>&1); echo "$p exit=$? $(echo "$out" | tail -1 | cut -c1-160)"; echo "$out" | grep "VIOLATION\|UNDECIDED" | cut -c1-260 | head -5; done
