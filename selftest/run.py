#!/usr/bin/env python3
"""Self-test of the GoVC checks: every patch under mustfail/ must make the named property's check
report a VIOLATION (exit 1); every patch under mustpass/ (semantics-preserving edits) must not.
Patch file name: <PROP>_<name>.diff.  Patches are applied to scratch git worktrees of /repo
(under $VERIF_SCRATCH, default /var/tmp/verif-scratch), never to /repo itself.  $VERIF_JOBS
worktrees (default 3) work in parallel."""
import os, subprocess, sys, glob, shutil, time, json, threading, queue

ROOT = os.path.dirname(os.path.abspath(__file__))
SCRATCH = os.environ.get("VERIF_SCRATCH", "/var/tmp/verif-scratch")
JOBS = int(os.environ.get("VERIF_JOBS", "3"))


def sh(cmd, **kw):
    return subprocess.run(cmd, shell=True, stdout=subprocess.PIPE, stderr=subprocess.STDOUT, text=True, **kw)


def make_wt(wt):
    sh(f"git -C /repo worktree remove --force {wt}")
    shutil.rmtree(wt, ignore_errors=True)
    r = sh(f"git -C /repo worktree add --detach {wt} HEAD")
    if r.returncode != 0:
        print(r.stdout)
        return False
    # the worktree must reflect the working tree of /repo (uncommitted edits included)
    d = sh("git -C /repo diff HEAD")
    if d.stdout.strip():
        subprocess.run(f"git -C {wt} apply", shell=True, input=d.stdout, text=True)
    for f in sh("git -C /repo ls-files --others --exclude-standard").stdout.split():
        os.makedirs(os.path.dirname(os.path.join(wt, f)), exist_ok=True)
        shutil.copy(os.path.join("/repo", f), os.path.join(wt, f))
    sh(f"git -C {wt} add -A && git -C {wt} -c user.email=v@v -c user.name=v commit -qm base")
    return True


def main():
    only = sys.argv[1:]
    os.makedirs(SCRATCH, exist_ok=True)
    jobs = []
    for kind in ("mustfail", "mustpass"):
        for patch in sorted(glob.glob(os.path.join(ROOT, kind, "*.diff"))):
            name = os.path.basename(patch)[:-5]
            if only and not any(o in name for o in only):
                continue
            jobs.append((kind, patch, name))
    q = queue.Queue()
    for j in jobs:
        q.put(j)
    results, lock = [], threading.Lock()
    nw = max(1, min(JOBS, len(jobs)))
    wts = [os.path.join(SCRATCH, "selftest-wt-%d-%d" % (os.getpid(), i)) for i in range(nw)]

    def worker(wt):
        if not make_wt(wt):
            return
        while True:
            try:
                kind, patch, name = q.get_nowait()
            except queue.Empty:
                return
            prop = name.split("_")[0]
            a = sh(f"git -C {wt} apply --whitespace=nowarn {patch}")
            if a.returncode != 0:
                with lock:
                    print(f"SELFTEST-ERROR {kind}/{name}: patch does not apply: {a.stdout.strip()[:200]}", flush=True)
                    results.append({"patch": kind + "/" + name, "ok": False, "exit": -1, "first": "patch does not apply"})
                sh(f"git -C {wt} checkout -- . && git -C {wt} clean -fdq")
                continue
            b = sh(f"cd {wt} && GOFLAGS=-mod=mod GOPROXY=off go build ./... 2>&1 | head -5")
            t0 = time.time()
            # must-fail patches: no second attempt for undecided obligations (it only guards against false alarms)
            nr = "VERIF_NO_RETRY=1 " if kind == "mustfail" else ""
            # seeded changes run the check as registered (with replay / witness search / bounded stand-ins);
            # hand-written mutations skip the replay step to save time
            rp = "" if "_seed_" in name else "-noreplay "
            c = sh(f"{nr}VERIF_REPO={wt} VERIF_SELFTEST=1 /verif/bin/govc check -prop {prop} {rp}-noevidence")
            dt = time.time() - t0
            viol = "VIOLATION" in c.stdout
            ok = (viol and c.returncode == 1) if kind == "mustfail" else (not viol and c.returncode == 0)
            status = "ok" if ok else "WRONG"
            if b.stdout.strip():
                status += " (patched tree does not build: %s)" % b.stdout.strip()[:120]
            first = next((ln for ln in c.stdout.splitlines() if "VIOLATION" in ln), "")
            with lock:
                print(f"{status:6} {kind}/{name:50} exit={c.returncode} {dt:.1f}s {first[:160]}", flush=True)
                results.append({"patch": kind + "/" + name, "ok": ok, "exit": c.returncode, "first": first[:300]})
                if not ok:
                    print(c.stdout[-1500:], flush=True)
            sh(f"git -C {wt} checkout -- . && git -C {wt} clean -fdq")

    ths = [threading.Thread(target=worker, args=(wt,)) for wt in wts]
    try:
        for t in ths:
            t.start()
        for t in ths:
            t.join()
    finally:
        for wt in wts:
            sh(f"git -C /repo worktree remove --force {wt}")
            shutil.rmtree(wt, ignore_errors=True)
    bad = sum(1 for r in results if not r["ok"])
    if not only:
        json.dump(sorted(results, key=lambda r: r["patch"]), open(os.path.join(ROOT, "last_run.json"), "w"), indent=1)
    print(f"selftest: {len(results)} patches, {bad} wrong")
    return 1 if bad else 0


if __name__ == "__main__":
    sys.exit(main())
