#!/usr/bin/env python3
"""Self-test of the GoVC checks: every patch under mustfail/ must make the named property's check
report a VIOLATION (exit 1); every patch under mustpass/ (semantics-preserving edits) must not.
Patch file name: <PROP>_<name>.diff.  Patches are applied to a scratch git worktree of /repo
(under $VERIF_SCRATCH, default /var/tmp/verif-scratch), never to /repo itself."""
import os, subprocess, sys, glob, shutil, time, json

ROOT = os.path.dirname(os.path.abspath(__file__))
SCRATCH = os.environ.get("VERIF_SCRATCH", "/var/tmp/verif-scratch")
WT = os.path.join(SCRATCH, "selftest-wt-%d" % os.getpid())

def sh(cmd, **kw):
    return subprocess.run(cmd, shell=True, stdout=subprocess.PIPE, stderr=subprocess.STDOUT, text=True, **kw)

def main():
    only = sys.argv[1:]
    os.makedirs(SCRATCH, exist_ok=True)
    sh(f"git -C /repo worktree remove --force {WT}")
    shutil.rmtree(WT, ignore_errors=True)
    r = sh(f"git -C /repo worktree add --detach {WT} HEAD")
    if r.returncode != 0:
        print(r.stdout); return 2
    # the worktree must reflect the working tree of /repo (uncommitted edits included)
    d = sh("git -C /repo diff HEAD")
    if d.stdout.strip():
        p = subprocess.run(f"git -C {WT} apply", shell=True, input=d.stdout, text=True)
    # untracked contract files
    for f in sh("git -C /repo ls-files --others --exclude-standard").stdout.split():
        os.makedirs(os.path.dirname(os.path.join(WT, f)), exist_ok=True)
        shutil.copy(os.path.join("/repo", f), os.path.join(WT, f))
    sh(f"git -C {WT} add -A && git -C {WT} -c user.email=v@v -c user.name=v commit -qm base")
    bad = 0
    results = []
    try:
        for kind in ("mustfail", "mustpass"):
            for patch in sorted(glob.glob(os.path.join(ROOT, kind, "*.diff"))):
                name = os.path.basename(patch)[:-5]
                prop = name.split("_")[0]
                if only and not any(o in name for o in only):
                    continue
                a = sh(f"git -C {WT} apply --whitespace=nowarn {patch}")
                if a.returncode != 0:
                    print(f"SELFTEST-ERROR {kind}/{name}: patch does not apply: {a.stdout.strip()[:200]}")
                    bad += 1
                    sh(f"git -C {WT} checkout -- . && git -C {WT} clean -fdq")
                    continue
                b = sh(f"cd {WT} && GOFLAGS=-mod=mod GOPROXY=off go build ./... 2>&1 | head -5")
                t0 = time.time()
                c = sh(f"VERIF_REPO={WT} VERIF_SELFTEST=1 /verif/bin/govc check -prop {prop} -noreplay -noevidence")
                dt = time.time() - t0
                viol = "VIOLATION" in c.stdout
                ok = (viol and c.returncode == 1) if kind == "mustfail" else (not viol and c.returncode == 0)
                status = "ok" if ok else "WRONG"
                if b.stdout.strip():
                    status += " (patched tree does not build: %s)" % b.stdout.strip()[:120]
                first = next((l for l in c.stdout.splitlines() if "VIOLATION" in l), "")
                print(f"{status:6} {kind}/{name:50} exit={c.returncode} {dt:.1f}s {first[:160]}")
                results.append({"patch": kind + "/" + name, "ok": ok, "exit": c.returncode, "first": first[:300]})
                if not ok:
                    bad += 1
                    print(c.stdout[-1500:])
                sh(f"git -C {WT} checkout -- . && git -C {WT} clean -fdq")
    finally:
        sh(f"git -C /repo worktree remove --force {WT}")
        shutil.rmtree(WT, ignore_errors=True)
    json.dump(results, open(os.path.join(ROOT, "last_run.json"), "w"), indent=1)
    print(f"selftest: {len(results)} patches, {bad} wrong")
    return 1 if bad else 0

if __name__ == "__main__":
    sys.exit(main())
