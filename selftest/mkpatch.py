#!/usr/bin/env python3
"""mkpatch.py <kind> <PROP_name> <repo-relative-file> <old> <new>  -- writes selftest/<kind>/<PROP_name>.diff
(several (file, old, new) triples may follow each other)."""
import sys, difflib, os
kind, name = sys.argv[1], sys.argv[2]
rest = sys.argv[3:]
out = []
i = 0
while i < len(rest):
    f, old, new = rest[i], rest[i+1], rest[i+2]
    i += 3
    src = open(os.path.join("/repo", f)).read()
    if src.count(old) != 1:
        sys.exit(f"{f}: old text occurs {src.count(old)} times")
    dst = src.replace(old, new)
    out.append("".join(difflib.unified_diff(src.splitlines(True), dst.splitlines(True), "a/" + f, "b/" + f)))
p = os.path.join(os.path.dirname(os.path.abspath(__file__)), kind, name + ".diff")
open(p, "w").write("".join(out))
print("wrote", p)
