#!/usr/bin/env python3
"""Regenerates /verif/MANIFEST.json from props/*.json (claimed checks) and props/not_applicable.json."""
import json, glob, os, subprocess
ROOT = os.path.dirname(os.path.abspath(__file__))
props = [json.loads(l) for l in open(os.path.join(ROOT, "properties.jsonl"))]
ids = [p["id"] for p in props]
claimed = {}
for f in sorted(glob.glob(os.path.join(ROOT, "props", "C*.json"))):
    d = json.load(open(f))
    claimed[d["id"]] = d
na = json.load(open(os.path.join(ROOT, "props", "not_applicable.json")))
hooks = subprocess.run("git -C /repo log --format=%H --grep='^verif:' ", shell=True, stdout=subprocess.PIPE, text=True).stdout.split()
checks = []
for pid in ids:
    if pid not in claimed:
        continue
    d = claimed[pid]
    fns = ", ".join(f["pkg"] + "." + f["key"] for f in d["functions"])
    text = d.get("level_text") or ("Deductive proof: every verification condition GoVC generates from the current source of " + fns +
            " against its contracts (requires/ensures/loop invariants/frames in /repo/<pkg>/zz_contracts_verif.go) is discharged by an SMT solver, for all inputs and iterations.")
    und = d.get("undecided_clauses") or []
    if und:
        text += " NOT decided: " + "; ".join(und) + "."
    if d.get("bounded"):
        text += " Bounded stand-ins (not proofs): " + "; ".join(b["name"] + " [" + b["bound"] + "]" for b in d["bounded"]) + "."
    note = "Trusted: GoVC's translation of Go semantics, the SMT solvers (z3 4.8.12, z3 5.1.0, cvc5 1.0.3), assumed contracts in /verif/specs/assumed.spec that the run uses (listed in the evidence file)"
    if d.get("assumptions"):
        note += "; " + "; ".join(d["assumptions"])
    checks.append({
        "property_id": pid,
        "quick_cmd": f"./bin/govc check -prop {pid} -tier quick",
        "thorough_cmd": f"./bin/govc check -prop {pid} -tier thorough",
        "evidence_file": f"/verif/evidence/{pid}.json",
        "replay_cmd_template": "cat {path}",
        "engine": "govc",
        "level_claimed": {"category": "proof", "text": text, "design_ref": "DESIGN.md section 3, " + pid},
        "level_note": note,
        "technique": d.get("technique") or "contract-based deductive verification: weakest-precondition style VCs over the real Go AST, discharged by SMT (z3/cvc5)",
    })
nalist = []
for pid in ids:
    if pid in claimed:
        continue
    nalist.append({"property_id": pid, "reason": na.get(pid, "contracts not completed (see DESIGN.md); no other technique substituted")})
m = {
    "version": 1,
    "setup_cmd": "cd /verif/govc && GOFLAGS=-mod=mod GOPROXY=off go build -o /verif/bin/govc . && cd /verif && (./bin/govc check -prop C40 -noevidence >/dev/null 2>&1 || true)",
    "hooks": {
        "guard": "verif",
        "enable": "contracts are comment-only files <pkg>/zz_contracts_verif.go with //go:build verif; GoVC loads /repo with -tags verif. No executable hook exists.",
        "baseline_off_cmd": "cd /repo && go test -mod=mod -json -vet=off -count=1 -timeout 25m ./...",
        "source_commits": hooks,
        "add_only": True,
    },
    "engines": [{"name": "govc", "path": "/verif/govc", "serves_properties": [c["property_id"] for c in checks],
                 "kind_free_text": "verification-condition generator for Go (go/packages + go/ast + go/types), contracts as //@ comments, obligations discharged by z3 4.8.12 / z3 5.1.0 / cvc5 1.0.3 raced per obligation"}],
    "checks": checks,
    "notes": "GoVC: contract-based deductive verification of the real gotd/td functions. Known findings: /verif/known_findings.json. Self-test corpus: /verif/selftest (python3 selftest/run.py).",
    "not_applicable": nalist,
}
json.dump(m, open(os.path.join(ROOT, "MANIFEST.json"), "w"), indent=1)
print("checks:", len(checks), "not_applicable:", len(nalist))
